From Coq Require Import List Arith Lia Bool.
Import ListNotations.
From LSConc Require Import Clock Mach Inv Pres Pres2 Pres3 Pres4.

(* ---------- AJoin ---------- *)
Lemma pres_join s t c s' : Inv s -> step s t (AJoin c) = Ok s' -> Inv s'.
Proof.
  intros I H. inv_step H. fold (T s t) in H. fold (T s c) in H.
  destruct (started (T s t)) eqn:Hst; cbn [negb] in H; [|discriminate].
  destruct (_ || _ || _ || _) eqn:Hg; [discriminate|].
  injection H as <-. unfold with_th.
  set (c' := tick (join (clk (T s t)) (clk (T s c))) t).
  set (x' := {| clk := c'; pend := pend (T s t); refs := refs (T s t);
                excl := excl (T s t); mustfree := mustfree (T s t); started := true; lend := lend (T s t) |}).
  assert (HT : forall M W R l u, T {| msgs := M; Wc := W; Rc := R; live := l; ths := upd (ths s) t x' |} u
                         = if Nat.eqb u t then x' else T s u) by (intros; apply T_upd; auto).
  assert (Htot : total (upd (ths s) t x') = total (ths s)).
  { pose proof (total_upd (ths s) t x' Ht). unfold T, getth in *. subst x'; cbn [refs] in *. lia. }
  assert (Hcc : cle (clk (T s t)) c') by (subst c'; pw).
  constructor; cbn [msgs Wc Rc live ths]; unfold hdm; cbn [msgs].
  - intros Hl. destruct (J1 s I Hl) as [Hne Hv]. split; [auto|]. rewrite Htot. exact Hv.
  - intros u. rewrite HT. destruct (Nat.eqb_spec u t) as [->|Hne']; cbn [refs clk x'].
    + intros Hr. eapply cle_trans; [apply (J2 s I t Hr) | exact Hcc].
    + apply (J2 s I u).
  - intros Hl u. destruct (J3 s I Hl u) as [H3|[[h [Hh H3]]|[[h [Hm H3]]|[h [Hb H3]]]]]; [left; exact H3| | |].
    + right. left. exists h. rewrite HT. destruct (Nat.eqb_spec h t) as [->|Hne']; cbn [refs clk x']; [|auto].
      split; [lia|]. specialize (Hcc u). lia.
    + right. right. left. exists h. rewrite HT. destruct (Nat.eqb_spec h t) as [->|Hne']; cbn [mustfree clk x']; [|auto].
      split; [exact Hm|]. specialize (Hcc u). lia.
    + right. right. right. exists h. rewrite HT. destruct (Nat.eqb_spec h t) as [->|Hne']; cbn [lend clk x']; [|auto].
      split; [exact Hb|]. specialize (Hcc u). lia.
  - intros u. rewrite HT. destruct (Nat.eqb_spec u t) as [->|Hne']; cbn [mustfree clk pend x'].
    + intros Hm. destruct (J4 s I t Hm) as (Hl & H0 & HW & HR & Hu). repeat split; auto.
      * rewrite Htot; auto.
      * subst c'. pw.
      * subst c'. pw.
      * intros w. rewrite HT. destruct (Nat.eqb_spec w t); [auto|]. cbn [mustfree]. apply Hu.
    + intros Hm. destruct (J4 s I u Hm) as (Hl & H0 & HW & HR & Hu). repeat split; auto.
      * rewrite Htot; auto.
      * intros w. rewrite HT. destruct (Nat.eqb_spec w t) as [->|]; cbn [mustfree x']; apply Hu.
  - intros u. rewrite HT. destruct (Nat.eqb_spec u t) as [->|Hne']; cbn [excl refs clk x'].
    + intros He. destruct (J5 s I t He) as (Hl & H1 & Ht1 & HWc & HRc).
      repeat split; auto; try (rewrite Htot; auto).
      * eapply cle_trans; [exact HWc | exact Hcc].
      * eapply cle_trans; [exact HRc | exact Hcc].
    + intros He. destruct (J5 s I u He) as (Hl & H1 & Ht1 & HWc & HRc). repeat split; auto. rewrite Htot; auto.
  - intros Hl. destruct (J6 s I Hl) as [H0 Hall]. split; [rewrite Htot; auto|].
    intros u. rewrite HT. destruct (Nat.eqb_spec u t) as [->|]; cbn [mustfree excl x']; apply Hall.
  - apply J7_upd; auto.
  - intros u. rewrite HT. destruct (Nat.eqb_spec u t) as [->|Hne']; cbn [started x']; [discriminate|].
    apply (J8 s I u).
  - intros Hl H0. rewrite Htot in H0. destruct (J9 s I Hl H0) as (h & Hm). exists h. rewrite HT.
    destruct (Nat.eqb_spec h t) as [->|]; cbn [mustfree x']; exact Hm.
  - apply J10_upd; auto. intros (c0 & Hc0). destruct (J10 s I c0 t Hc0) as (_ & _ & Hr' & _ & He' & _). auto.
  - apply J11_upd; auto.
Qed.

(* ---------- ASpawn ---------- *)
Lemma pres_spawn s t c k s' : Inv s -> step s t (ASpawn c k) = Ok s' -> Inv s'.
Proof.
  intros I H. inv_step H. fold (T s t) in H. fold (T s c) in H.
  destruct (started (T s t)) eqn:Hst; cbn [negb] in H; [|discriminate].
  destruct (Nat.eqb_spec c t) as [Hct|Hct]; cbn [orb] in H; [discriminate|].
  destruct (Nat.ltb_spec c (length (ths s))) as [Hc|Hc]; cbn [negb orb] in H; [|discriminate].
  destruct (started (T s c)) eqn:Hsc; cbn [orb] in H; [discriminate|].
  destruct (Nat.leb_spec k (refs (T s t))) as [Hk|Hk]; cbn [negb orb] in H; [|discriminate].
  destruct (lends_from s t && Nat.leb (refs (T s t) - k) 0) eqn:Hlf0; [discriminate|].
  assert (Hlf : lends_from s t = false \/ k < refs (T s t)).
  { apply andb_false_iff in Hlf0. destruct Hlf0 as [H0|H0]; [left; exact H0|right; apply Nat.leb_gt in H0; lia]. }
  injection H as <-. unfold with_th. cbn [msgs Wc Rc live ths].
  destruct (J8 s I c Hsc) as (Hc0 & Hcm & Hce).
  set (cp := tick (clk (T s t)) t).
  set (xp := {| clk := cp; pend := pend (T s t); refs := refs (T s t) - k; excl := false;
                mustfree := mustfree (T s t); started := true; lend := lend (T s t) |}).
  set (xc := {| clk := tick cp c; pend := []; refs := k; excl := false; mustfree := false; started := true; lend := 0 |}).
  assert (HT : forall M W R l u,
             T {| msgs := M; Wc := W; Rc := R; live := l; ths := upd (upd (ths s) t xp) c xc |} u
             = if Nat.eqb u c then xc else if Nat.eqb u t then xp else T s u).
  { intros. unfold T, getth. cbn [ths].
    destruct (Nat.eqb_spec u c) as [->|Hn1]; [apply nth_upd_eq; rewrite upd_length; auto|].
    rewrite nth_upd_ne by auto.
    destruct (Nat.eqb_spec u t) as [->|Hn2]; [apply nth_upd_eq; auto | apply nth_upd_ne; auto]. }
  assert (Htot : total (upd (upd (ths s) t xp) c xc) = total (ths s)).
  { pose proof (total_upd (ths s) t xp Ht) as E1.
    pose proof (total_upd (upd (ths s) t xp) c xc ltac:(rewrite upd_length; auto)) as E2.
    rewrite nth_upd_ne in E2 by auto. unfold T, getth in *. subst xp xc; cbn [refs] in *. lia. }
  assert (Hcc : cle (clk (T s t)) cp) by (subst cp; pw).
  assert (Hcc2 : cle (clk (T s t)) (tick cp c)) by (subst cp; pw).
  constructor; cbn [msgs Wc Rc live ths]; unfold hdm; cbn [msgs].
  - intros Hl. destruct (J1 s I Hl) as [Hne Hv]. split; [auto|]. rewrite Htot. exact Hv.
  - intros u. rewrite HT. destruct (Nat.eqb_spec u c) as [->|Hn1]; cbn [refs clk xc].
    + intros Hr. eapply cle_trans; [apply (J2 s I t ltac:(lia)) | exact Hcc2].
    + destruct (Nat.eqb_spec u t) as [->|Hn2]; cbn [refs clk xp].
      * intros Hr. eapply cle_trans; [apply (J2 s I t ltac:(lia)) | exact Hcc].
      * apply (J2 s I u).
  - intros Hl u. destruct (J3 s I Hl u) as [H3|[[h [Hh H3]]|[[h [Hm H3]]|[h [Hb H3]]]]]; [left; exact H3| | |].
    + right. left. destruct (Nat.eqb_spec h t) as [->|Hn2].
      * (* holder was the parent: parent or child still holds *)
        destruct (Nat.eq_dec k 0) as [->|Hk0].
        -- exists t. rewrite HT. destruct (Nat.eqb_spec t c); [congruence|]. rewrite Nat.eqb_refl. cbn [refs clk xp].
           split; [lia|]. specialize (Hcc u). lia.
        -- exists c. rewrite HT. rewrite Nat.eqb_refl. cbn [refs clk xc]. split; [lia|]. specialize (Hcc2 u). lia.
      * exists h. rewrite HT. destruct (Nat.eqb_spec h c) as [->|Hn1]; [lia|].
        destruct (Nat.eqb_spec h t); [contradiction|]. auto.
    + right. right. left. exists h. rewrite HT. destruct (Nat.eqb_spec h c) as [->|Hn1]; [congruence|].
      destruct (Nat.eqb_spec h t) as [->|Hn2]; cbn [mustfree clk xp]; [|auto].
      split; [exact Hm|]. specialize (Hcc u). lia.
    + right. right. right. exists h. rewrite HT. destruct (Nat.eqb_spec h c) as [->|Hn1].
      * exfalso. destruct (lend (T s c)) as [|q] eqn:El; [contradiction|].
        destruct (J10 s I c q El) as (Hstc & _). congruence.
      * destruct (Nat.eqb_spec h t) as [->|Hn2]; cbn [lend clk xp]; [|auto].
        split; [exact Hb|]. specialize (Hcc u). lia.
  - intros u. rewrite HT. destruct (Nat.eqb_spec u c) as [->|Hn1]; cbn [mustfree xc]; [discriminate|].
    destruct (Nat.eqb_spec u t) as [->|Hn2]; cbn [mustfree clk pend xp].
    + intros Hm. destruct (J4 s I t Hm) as (Hl & H0 & HW & HR & Hu). repeat split; auto.
      * rewrite Htot; auto.
      * subst cp. pw.
      * subst cp. pw.
      * intros w. rewrite HT. destruct (Nat.eqb_spec w c); cbn [mustfree xc]; [discriminate|].
        destruct (Nat.eqb_spec w t); [auto|]. apply Hu.
    + intros Hm. destruct (J4 s I u Hm) as (Hl & H0 & HW & HR & Hu). repeat split; auto.
      * rewrite Htot; auto.
      * intros w. rewrite HT. destruct (Nat.eqb_spec w c); cbn [mustfree xc]; [discriminate|].
        destruct (Nat.eqb_spec w t) as [->|]; cbn [mustfree xp]; apply Hu.
  - intros u. rewrite HT. destruct (Nat.eqb_spec u c) as [->|Hn1]; cbn [excl xc]; [discriminate|].
    destruct (Nat.eqb_spec u t) as [->|Hn2]; cbn [excl xp]; [discriminate|].
    intros He. destruct (J5 s I u He) as (Hl & H1 & Ht1 & HWc & HRc). repeat split; auto. rewrite Htot; auto.
  - intros Hl. destruct (J6 s I Hl) as [H0 Hall]. split; [rewrite Htot; auto|].
    intros u. rewrite HT. destruct (Nat.eqb_spec u c); cbn [mustfree excl xc]; [auto|].
    destruct (Nat.eqb_spec u t) as [->|]; cbn [mustfree excl xp]; [split; [apply Hall|reflexivity]|apply Hall].
  - intros u q m0.
    pose (s2 := {| msgs := msgs s; Wc := Wc s; Rc := Rc s; live := live s; ths := upd (upd (ths s) t xp) c xc |}).
    assert (Hclk : forall v, v <> c -> cle (clk (T s v)) (clk (T s2 v))).
    { intros v Hvc. unfold s2. rewrite HT. destruct (Nat.eqb_spec v c) as [->|]; [contradiction|].
      destruct (Nat.eqb_spec v t) as [->|]; [exact Hcc|apply cle_refl]. }
    assert (Hbc : forall v w, lend (T s w) = S v -> w <> c).
    { intros v w Hw ->. destruct (J10 s I c v Hw) as (Hx & _). congruence. }
    assert (Hlend : forall v, lend (T s v) <> 0 -> lend (T s2 v) = lend (T s v)).
    { intros v Hv0. unfold s2. rewrite HT. destruct (Nat.eqb_spec v c) as [->|].
      - exfalso. destruct (lend (T s c)) as [|q0] eqn:El; [contradiction|]. destruct (J10 s I c q0 El) as (Hx & _). congruence.
      - destruct (Nat.eqb_spec v t) as [->|]; reflexivity. }
    rewrite HT. destruct (Nat.eqb_spec u c) as [->|Hn1]; cbn [refs clk xc].
    + (* the child: what it has not seen the parent had not seen either; the parent lends nothing *)
      intros Hr' Hq Hn0 Hall1.
      assert (Hunt : forall m', In m' (firstn q (msgs s)) -> ~ hb m' (clk (T s t))).
      { intros m' Hin Hhb. destruct (Hall1 m' Hin) as (H1 & _). apply H1. unfold s2. rewrite HT, Nat.eqb_refl. cbn [clk xc].
        eapply hb_mono; [exact Hcc2|exact Hhb]. }
      destruct Hlf as [Hlf|Hkeep].
      * assert (HK : refs (T s t) + 1 <= val m0).
        { apply (J7 s I t q m0 ltac:(lia) Hq Hn0). intros m' Hin. split; [exact (Hunt m' Hin)|].
          intros w Hw. exfalso. exact (lends_from_false s t w Hlf Hw). }
        lia.
      * (* the parent lends and keeps a handle: what the child may still read counts the parent's references (J11) *)
        pose proof (J11 s I t q m0 ltac:(lia) Hn0 Hunt). lia.
    + destruct (Nat.eqb_spec u t) as [->|Hn2]; cbn [refs clk xp].
      * intros Hr' Hq Hn0 Hall1.
        assert (HK : refs (T s t) + 1 <= val m0).
        { apply (J7 s I t q m0 ltac:(lia) Hq Hn0).
          apply (unseen_mono s s2 t q); [reflexivity|apply Hclk; exact Hn1| |exact Hall1].
          intros w Hw. split; [rewrite Hlend; [exact Hw|rewrite Hw; discriminate]|apply Hclk; exact (Hbc t w Hw)]. }
        lia.
      * intros Hr' Hq Hn0 Hall1. apply (J7 s I u q m0 Hr' Hq Hn0).
        apply (unseen_mono s s2 u q); [reflexivity|apply Hclk; exact Hn1| |exact Hall1].
        intros w Hw. split; [rewrite Hlend; [exact Hw|rewrite Hw; discriminate]|apply Hclk; exact (Hbc u w Hw)].
  - intros u. rewrite HT. destruct (Nat.eqb_spec u c) as [->|Hn1]; cbn [started xc]; [discriminate|].
    destruct (Nat.eqb_spec u t) as [->|Hn2]; cbn [started xp]; [discriminate|]. apply (J8 s I u).
  - intros Hl H0. rewrite Htot in H0. destruct (J9 s I Hl H0) as (h & Hm). exists h. rewrite HT.
    destruct (Nat.eqb_spec h c) as [->|]; [congruence|].
    destruct (Nat.eqb_spec h t) as [->|]; cbn [mustfree xp]; exact Hm.
  - intros c0 p0. rewrite !HT.
    destruct (Nat.eqb_spec c0 c) as [->|Hc0c]; cbn [lend xc]; [discriminate|].
    destruct (Nat.eqb_spec c0 t) as [->|Hc0t]; cbn [lend xp]; intros El;
      destruct (J10 s I _ p0 El) as (Hs0 & Hp0 & Hr0 & Hl0 & He0 & HW0);
      (destruct (Nat.eqb_spec p0 c) as [->|Hp0c]; [exfalso; lia|]).
    + destruct (Nat.eqb_spec p0 t) as [->|Hp0t]; [congruence|].
      cbn [started clk xp]. repeat split; auto. eapply cle_trans; [exact HW0|exact Hcc].
    + destruct (Nat.eqb_spec p0 t) as [->|Hp0t]; [|repeat split; auto].
      (* the parent lends to c0: it keeps a reference *)
      destruct Hlf as [Hlf|Hkeep]; [exfalso; exact (lends_from_false s t c0 Hlf El)|].
      cbn [refs lend excl xp]. repeat split; auto. lia.
  - intros u p m. rewrite HT.
    destruct (Nat.eqb_spec u c) as [->|Hn1]; cbn [refs clk xc].
    + intros Hr' Hn Hun. assert (refs (T s t) <= val m); [|lia].
      apply (J11 s I t p m); [lia|exact Hn|]. intros m' Hin Hhb. apply (Hun m' Hin). eapply hb_mono; [exact Hcc2|exact Hhb].
    + destruct (Nat.eqb_spec u t) as [->|Hn2]; cbn [refs clk xp]; [|apply (J11 s I u p m)].
      intros Hr' Hn Hun. assert (refs (T s t) <= val m); [|lia].
      apply (J11 s I t p m); [lia|exact Hn|]. intros m' Hin Hhb. apply (Hun m' Hin). eapply hb_mono; [exact Hcc|exact Hhb].
Qed.
