From Coq Require Import List Arith Lia Bool.
Import ListNotations.
From LSConc Require Import Clock Mach Inv Pres Pres2.

Lemma forallb_nothb l c :
  forallb (fun m' => negb (hbb m' c)) l = true -> forall m', In m' l -> ~ hb m' c.
Proof.
  intros H m' Hin Hhb. rewrite forallb_forall in H. specialize (H m' Hin).
  apply hbb_spec in Hhb. rewrite Hhb in H. discriminate.
Qed.

(* ---------- AProbe ---------- *)
Lemma pres_probe s t p s' : Inv s -> step s t (AProbe p) = Ok s' -> Inv s'.
Proof.
  intros I H. inv_step H. fold (T s t) in H.
  destruct (started (T s t)) eqn:Hst; cbn [negb] in H; [|discriminate].
  destruct (Nat.ltb_spec 0 (refs (T s t))) as [Hr|Hr]; cbn [negb orb] in H; [|discriminate].
  destruct (lends_from s t && Nat.leb (refs (T s t)) 1) eqn:Hlf0; [discriminate|].
  assert (Hlf : lends_from s t = false \/ 2 <= refs (T s t)).
  { apply andb_false_iff in Hlf0. destruct Hlf0 as [H0|H0]; [left; exact H0|right; apply Nat.leb_gt in H0; lia]. }
  destruct (live s) eqn:Hl; cbn [negb] in H; [|discriminate].
  destruct (nth_error (msgs s) p) as [m|] eqn:Hn; [|discriminate].
  destruct (forallb _ _) eqn:Hall; cbn [negb] in H; [|discriminate].
  injection H as <-.
  destruct (J1 s I Hl) as [Hne Hv].
  pose proof (forallb_nothb _ _ Hall) as Hnhb.
  (* key fact: reading value 1 means reading the latest message *)
  (* a thread that lends and probes on behalf of another of its handles holds two references: it cannot read 1 *)
  assert (Hno1 : 2 <= refs (T s t) -> val m <> 1).
  { intros H2 H1. pose proof (J11 s I t p m Hr Hn Hnhb). lia. }
  assert (Hkey : val m = 1 -> p = 0 /\ lends_from s t = false).
  { intros H1. destruct Hlf as [Hlf|H2]; [|exfalso; exact (Hno1 H2 H1)]. split; [|exact Hlf].
    destruct p as [|p]; [reflexivity|]. exfalso.
    assert (Hun : unseen s t (S p)).
    { intros m' Hin. split; [exact (Hnhb m' Hin)|]. intros c Hc. exfalso. exact (lends_from_false s t c Hlf Hc). }
    pose proof (J7 s I t (S p) m Hr ltac:(lia) Hn Hun). lia. }
  set (c' := tick (join (clk (T s t)) (view m)) t).
  set (x' := {| clk := c'; pend := pend (T s t); refs := refs (T s t);
                excl := excl (T s t) || Nat.eqb (val m) 1; mustfree := mustfree (T s t); started := true;
                lend := lend (T s t) |}).
  assert (HT : forall M W R l u, T {| msgs := M; Wc := W; Rc := R; live := l; ths := upd (ths s) t x' |} u
                         = if Nat.eqb u t then x' else T s u) by (intros; apply T_upd; auto).
  assert (Htot : total (upd (ths s) t x') = total (ths s)).
  { pose proof (total_upd (ths s) t x' Ht). unfold T, getth in *. subst x'; cbn [refs] in *. lia. }
  assert (Hcc : cle (clk (T s t)) c') by (subst c'; pw).
  unfold with_th.
  constructor; cbn [msgs Wc Rc live ths]; unfold hdm; cbn [msgs].
  - intros _. split; [auto|]. rewrite Htot. exact Hv.
  - intros u. rewrite HT. destruct (Nat.eqb_spec u t) as [->|Hne']; cbn [refs clk x'].
    + intros _. eapply cle_trans; [apply (J2 s I t Hr) | exact Hcc].
    + apply (J2 s I u).
  - intros _ u. destruct (J3 s I Hl u) as [H3|[[h [Hh H3]]|[[h [Hm H3]]|[h [Hb H3]]]]]; [left; exact H3| | |].
    + right. left. exists h. rewrite HT. destruct (Nat.eqb_spec h t) as [->|Hne']; cbn [refs clk x']; [|auto].
      split; [lia|]. specialize (Hcc u). lia.
    + exfalso. exact (mustfree_no_refs s h t I Hm Hr).
    + right. right. right. exists h. rewrite HT. destruct (Nat.eqb_spec h t) as [->|Hne']; cbn [lend clk x']; [|auto].
      split; [exact Hb|]. specialize (Hcc u). lia.
  - intros u. rewrite HT. destruct (Nat.eqb_spec u t) as [->|Hne']; cbn [mustfree clk pend x'].
    + intros Hm. destruct (J4 s I t Hm) as (_ & H0 & _). pose proof (T_le_total s t). lia.
    + intros Hm. destruct (J4 s I u Hm) as (_ & H0 & _). pose proof (T_le_total s t). lia.
  - intros u. rewrite HT. destruct (Nat.eqb_spec u t) as [->|Hne']; cbn [excl refs clk x'].
    + intros He. apply orb_true_iff in He. destruct He as [He|He].
      * destruct (J5 s I t He) as (_ & H1 & Ht1 & HWc & HRc).
        repeat split; auto; try (rewrite Htot; auto).
        -- eapply cle_trans; [exact HWc | exact Hcc].
        -- eapply cle_trans; [exact HRc | exact Hcc].
      * apply Nat.eqb_eq in He. destruct (Hkey He) as (-> & Hlf').
        (* m is the head *)
        destruct (msgs s) as [|m1 l1] eqn:Hms; [contradiction|]. cbn in Hn. injection Hn as ->.
        unfold hdm in Hv. rewrite Hms in Hv. cbn [hd] in Hv.
        assert (Htot1 : total (ths s) = 1) by lia.
        assert (Hr1 : refs (T s t) = 1) by (pose proof (T_le_total s t); lia).
        assert (Hall0 : forall w, w <> t -> refs (T s w) = 0).
        { intros w Hw. pose proof (T2_le_total s t w (not_eq_sym Hw)). lia. }
        split; [exact Hl|]. split; [exact Hr1|]. split; [rewrite Htot; exact Htot1|]. split.
        -- eapply cle_trans; [apply (J2 s I t Hr) | exact Hcc].
        -- intros v. destruct (J3 s I Hl v) as [H3|[[h [Hh H3]]|[[h [Hm H3]]|[h [Hb H3]]]]].
           ++ unfold hdm in H3. rewrite Hms in H3. cbn [hd] in H3. subst c'. rewrite get_tick, !get_join.
              destruct (Nat.eqb_spec v t); subst; lia.
           ++ destruct (Nat.eqb_spec h t) as [->|Hne'']; [specialize (Hcc v); lia|].
              specialize (Hall0 h Hne''). lia.
           ++ exfalso. exact (mustfree_no_refs s h t I Hm Hr).
           ++ exfalso. destruct (lend (T s h)) as [|q] eqn:El; [contradiction|].
              destruct (J10 s I h q El) as (_ & _ & Hrq & _).
              destruct (Nat.eq_dec q t) as [->|Hqt]; [exact (lends_from_false s t h Hlf' El)|].
              specialize (Hall0 q Hqt). lia.
    + intros He. destruct (J5 s I u He) as (_ & H1 & Ht1 & _).
      pose proof (T2_le_total s u t Hne'). lia.
  - intros Hf; congruence.
  - apply J7_upd; auto.
  - intros u. rewrite HT. destruct (Nat.eqb_spec u t) as [->|Hne']; cbn [started x']; [discriminate|].
    apply (J8 s I u).
  - intros _ H0. rewrite Htot in H0. pose proof (total_ge (ths s) t). unfold T, getth in *. lia.
  - apply J10_upd; auto. intros (c & Hc). destruct Hlf as [Hlf|H2]; [exfalso; exact (lends_from_false s t c Hlf Hc)|].
    cbn [refs excl x']. split; [lia|]. destruct (J10 s I c t Hc) as (_ & _ & _ & _ & He' & _). rewrite He'. cbn [orb].
    apply Nat.eqb_neq. exact (Hno1 H2).
  - apply J11_upd; auto.
Qed.

(* ---------- AFree ---------- *)
Lemma pres_free s t s' : Inv s -> step s t AFree = Ok s' -> Inv s'.
Proof.
  intros I H. inv_step H. fold (T s t) in H.
  destruct (started (T s t)) eqn:Hst; cbn [negb] in H; [|discriminate].
  destruct (mustfree (T s t)) eqn:Hmf; cbn [negb andb] in H; [|discriminate].
  destruct (cleb (pend (T s t)) (clk (T s t))) eqn:Hfen; cbn [negb] in H; [|discriminate].
  destruct (live s) eqn:Hl; cbn [negb] in H; [|discriminate].
  destruct (cleb _ _ && cleb _ _) eqn:Hc; cbn [negb] in H; [|discriminate].
  injection H as <-.
  destruct (J4 s I t Hmf) as (_ & H0 & HW & HR & Huniq).
  set (c' := tick (join (clk (T s t)) (pend (T s t))) t).
  set (x' := {| clk := c'; pend := pend (T s t); refs := refs (T s t);
                excl := false; mustfree := false; started := true; lend := lend (T s t) |}).
  assert (HT : forall M W R l u, T {| msgs := M; Wc := W; Rc := R; live := l; ths := upd (ths s) t x' |} u
                         = if Nat.eqb u t then x' else T s u) by (intros; apply T_upd; auto).
  assert (Htot : total (upd (ths s) t x') = total (ths s)).
  { pose proof (total_upd (ths s) t x' Ht). unfold T, getth in *. subst x'; cbn [refs] in *. lia. }
  assert (Hcc : cle (clk (T s t)) c') by (subst c'; pw).
  assert (Hr0 : forall u, refs (T s u) = 0) by (intros u; pose proof (T_le_total s u); lia).
  constructor; cbn [msgs Wc Rc live ths]; unfold hdm; cbn [msgs].
  - discriminate.
  - intros u. rewrite HT. destruct (Nat.eqb_spec u t) as [->|Hne']; cbn [refs clk x']; rewrite Hr0; lia.
  - discriminate.
  - intros u. rewrite HT. destruct (Nat.eqb_spec u t) as [->|Hne']; cbn [mustfree x']; [discriminate|].
    intros Hm. specialize (Huniq u Hm). contradiction.
  - intros u. rewrite HT. destruct (Nat.eqb_spec u t) as [->|Hne']; cbn [excl x']; [discriminate|].
    intros He. destruct (J5 s I u He) as (_ & H1 & _). rewrite Hr0 in H1. lia.
  - intros _. split; [rewrite Htot; exact H0|]. intros u. rewrite HT.
    destruct (Nat.eqb_spec u t) as [->|Hne']; cbn [mustfree excl x']; [auto|]. split.
    + destruct (mustfree (T s u)) eqn:Hm; [|reflexivity]. specialize (Huniq u Hm). contradiction.
    + destruct (excl (T s u)) eqn:He; [|reflexivity]. destruct (J5 s I u He) as (_ & H1 & _). rewrite Hr0 in H1. lia.
  - apply J7_upd; auto.
  - intros u. rewrite HT. destruct (Nat.eqb_spec u t) as [->|Hne']; cbn [started x']; [discriminate|].
    apply (J8 s I u).
  - discriminate.
  - apply J10_upd; auto. intros (c0 & Hc0). exfalso. exact (borrower_no_mustfree s c0 t t I Hc0 Hmf).
  - apply J11_upd; auto.
Qed.
