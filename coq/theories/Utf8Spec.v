(* Utf8Spec.v — well-formed UTF-8 as "a concatenation of well-formed encoded scalars" (Unicode table 3-7). *)
From LS Require Import Base Utf8.

(* one well-formed encoded scalar value *)
Definition char_ok (c : list N) : bool :=
  match c with
  | [a] => a <? 128
  | [a; b] => in_range 194 223 a && in_range 128 191 b
  | [a; b; c] =>
      (((a =? 224) && in_range 160 191 b) || ((in_range 225 236 a || in_range 238 239 a) && in_range 128 191 b)
       || ((a =? 237) && in_range 128 159 b)) && in_range 128 191 c
  | [a; b; c; d] =>
      (((a =? 240) && in_range 144 191 b) || (in_range 241 243 a && in_range 128 191 b)
       || ((a =? 244) && in_range 128 143 b)) && in_range 128 191 c && in_range 128 191 d
  | _ => false
  end.

Definition Valid (t : list N) : Prop :=
  exists cs, Forall (fun c => char_ok c = true) cs /\ t = concat cs.
