(* Compose.v — well-typed multi-threaded programs over the modelled functions never reach a race, a use after free or a
   double free, and never attempt an access they are not entitled to.

   A thread is a list of steps: a command tree of the model (any composition of the crate's modelled functions),
   spawning a child with k of its handles, joining a child.  The semantics interleaves the threads event by event:
   every event on the shared buffer b0 is one action of the protocol machine conc/Mach.v (so its race / use-after-free /
   double-free detection applies, with C11 release/acquire visibility as modelled there); events on other buffers are
   thread-private and silent.  The values atomics return are whatever the machine holds (any message a stale acquire
   load may still read).  The ghost state of Proto.okc is carried as instrumentation: it never influences a step except
   for the freshness of an allocated buffer id.

   typed_step / typed_steps: the typing invariant WT (machine invariant Inv + every thread's continuation is okc-typed for
   a ghost that agrees with its machine-local state) is preserved by every step; hence (typed_safe) no reachable
   configuration can make a step that the machine reports as an error, and (typed_progress) the head event of every
   started thread can be executed: its thread-local precondition holds. *)
From Coq Require Import Lia Arith List Bool NArith.
From LSConc Require Import Clock Mach Inv Top StepSpec Values Contents.
From LS Require Import Base Cmd Impl Proto.
Import ListNotations.
Local Open Scope nat_scope.

Section Compose.
Variable b0 : bufid.
Variable kof : nat -> nat.     (* the number of handles each spawned thread is given *)
Variable bof : nat -> bool.    (* the thread is a scoped thread that is lent &handle (and given no handle of its own) *)

(* ---------- ghost updates (the ones okc prescribes) ---------- *)
Definition g_alloc (g : ghost) (b : bufid) : ghost :=
  {| g_refs := setf (g_refs g) b 1%nat; g_excl := setf (g_excl g) b true; g_free := g_free g; g_fen := g_fen g; g_bor := g_bor g |}.
Definition g_dealloc (g : ghost) (b : bufid) : ghost :=
  {| g_refs := g_refs g; g_excl := g_excl g; g_free := setf (g_free g) b false; g_fen := g_fen g; g_bor := g_bor g |}.
Definition g_inc (g : ghost) (b : bufid) : ghost :=
  {| g_refs := setf (g_refs g) b (S (g_refs g b)); g_excl := setf (g_excl g) b false; g_free := g_free g; g_fen := false; g_bor := g_bor g |}.
Definition g_dec (g : ghost) (b : bufid) (v : N) : ghost :=
  {| g_refs := setf (g_refs g) b (g_refs g b - 1)%nat; g_excl := setf (g_excl g) b false;
     g_free := setf (g_free g) b (v =? 1)%N; g_fen := false; g_bor := g_bor g |}.
Definition g_load (g : ghost) (b : bufid) (v : N) : ghost :=
  {| g_refs := g_refs g; g_excl := setf (g_excl g) b (g_excl g b || (v =? 1)%N); g_free := g_free g; g_fen := g_fen g; g_bor := g_bor g |}.
Definition g_fence (g : ghost) (o : ord) : ghost :=
  {| g_refs := g_refs g; g_excl := g_excl g; g_free := g_free g; g_fen := g_fen g || acq o; g_bor := g_bor g |}.
Definition g_give (g : ghost) (k : nat) : ghost :=
  {| g_refs := setf (g_refs g) b0 (g_refs g b0 - k)%nat; g_excl := setf (g_excl g) b0 false; g_free := g_free g; g_fen := g_fen g; g_bor := g_bor g |}.
Definition g_child (k : nat) : ghost :=
  {| g_refs := fun b => if Nat.eqb b b0 then k else 0%nat; g_excl := fun _ => false; g_free := fun _ => false; g_fen := false; g_bor := fun _ => false |}.

(* the ghost of a scoped thread that borrows the handle, and of its lender after the loan *)
Definition g_childb : ghost :=
  {| g_refs := fun _ => 0%nat; g_excl := fun _ => false; g_free := fun _ => false; g_fen := false;
     g_bor := fun b => Nat.eqb b b0 |}.
Definition g_init (t : nat) : ghost := if bof t then g_childb else g_child (kof t).
(* lending: the handle that is lent is set aside (one reference fewer to work with) and the lender may itself read and
   clone through it like a borrower; further loans of the same handle change nothing; when the last loan ends the handle
   is the lender's own again *)
Definition g_hide (g : ghost) : ghost :=
  {| g_refs := setf (g_refs g) b0 (g_refs g b0 - 1)%nat; g_excl := setf (g_excl g) b0 false; g_free := g_free g; g_fen := g_fen g;
     g_bor := setf (g_bor g) b0 true |}.
Definition g_unhide (g : ghost) : ghost :=
  {| g_refs := setf (g_refs g) b0 (S (g_refs g b0)); g_excl := g_excl g; g_free := g_free g; g_fen := g_fen g;
     g_bor := setf (g_bor g) b0 false |}.
Definition g_lendout (lent : list nat) (g : ghost) : ghost := match lent with [] => g_hide g | _ => g end.
Definition g_joinb (lent' : list nat) (g : ghost) : ghost := match lent' with [] => g_unhide g | _ => g end.
(* the references a thread's machine state counts beyond its ghost: the lent handle *)
Definition hid (lent : list nat) : nat := match lent with [] => 0 | _ => 1 end.

(* a read of b0: by a reference holder, by the freeing thread after its fence, or through a borrowed handle *)
Definition read_step (s : st) (t : nat) (s' : st) : Prop :=
  step s t ARead = Ok s' \/ step s t AReadM = Ok s' \/ step s t AReadB = Ok s'.

(* ---------- one event of thread t ---------- *)
Inductive estep (t : nat) : st -> cmd unit -> ghost -> st -> cmd unit -> ghost -> Prop :=
| S_alloc_none s n k g : estep t s (Alloc n k) g s (k None) g
| S_alloc_some s n k g b : b <> b0 -> g_refs g b = 0%nat -> g_excl g b = false -> g_free g b = false ->
    estep t s (Alloc n k) g s (k (Some b)) (g_alloc g b)
| S_realloc_o s b o n k g ok : b <> b0 -> estep t s (Realloc b o n k) g s (k ok) g
| S_realloc s o n k g ok s' : step s t AWrite = Ok s' -> estep t s (Realloc b0 o n k) g s' (k ok) g
| S_dealloc_o s b n k g : b <> b0 -> estep t s (Dealloc b n k) g s k (g_dealloc g b)
| S_dealloc s n k g s' : step s t AFree = Ok s' -> estep t s (Dealloc b0 n k) g s' k (g_dealloc g b0)
| S_hdrinit_o s b c k g : b <> b0 -> estep t s (HdrInit b c k) g s k g
| S_hdrinit s c k g s' : step s t AWrite = Ok s' -> estep t s (HdrInit b0 c k) g s' k g
| S_hdrcap_o s b k g v : b <> b0 -> estep t s (HdrCap b k) g s (k v) g
| S_hdrcap s k g v s' : read_step s t s' -> estep t s (HdrCap b0 k) g s' (k v) g
| S_inc_o s b o k g v : b <> b0 -> estep t s (Rmw b true o k) g s (k v) (g_inc g b)
| S_inc s o k g s' : step s t AClone = Ok s' ->
    estep t s (Rmw b0 true o k) g s' (k (N.of_nat (val (hdm s)))) (g_inc g b0)
| S_inc_b s o k g s' : step s t ACloneB = Ok s' ->
    estep t s (Rmw b0 true o k) g s' (k (N.of_nat (val (hdm s)))) (g_inc g b0)
| S_dec_o s b o k g v : b <> b0 -> estep t s (Rmw b false o k) g s (k v) (g_dec g b v)
| S_dec s o k g s' : step s t ARelease = Ok s' ->
    estep t s (Rmw b0 false o k) g s' (k (N.of_nat (val (hdm s)))) (g_dec g b0 (N.of_nat (val (hdm s))))
| S_load_o s b o k g v : b <> b0 -> estep t s (Load b o k) g s (k v) (g_load g b v)
| S_load s o k g s' p m : nth_error (msgs s) p = Some m -> step s t (AProbe p) = Ok s' ->
    estep t s (Load b0 o k) g s' (k (N.of_nat (val m))) (g_load g b0 (N.of_nat (val m)))
| S_fence_acq s o k g s' : acq o = true -> step s t AFence = Ok s' -> estep t s (Fence o k) g s' k (g_fence g o)
| S_fence_no s o k g : acq o = false -> estep t s (Fence o k) g s k (g_fence g o)
| S_read_static s sid off n k g bs : estep t s (Read (PStatic sid) off n k) g s (k bs) g
| S_read_o s b off n k g bs : b <> b0 -> estep t s (Read (PHeap b) off n k) g s (k bs) g
| S_read s off n k g bs s' : read_step s t s' -> estep t s (Read (PHeap b0) off n k) g s' (k bs) g
| S_write_o s b off bs k g : b <> b0 -> estep t s (Write (PHeap b) off bs k) g s k g
| S_write s off bs k g s' : step s t AWrite = Ok s' -> estep t s (Write (PHeap b0) off bs k) g s' k g
| S_move_o s b x y n k g : b <> b0 -> estep t s (Move (PHeap b) x y n k) g s k g
| S_move s x y n k g s' : step s t AWrite = Ok s' -> estep t s (Move (PHeap b0) x y n k) g s' k g.

(* ---------- thread programs and configurations ---------- *)
Inductive pitem := POp (c : cmd unit) | PSpawn (child k : nat) | PJoin (child : nat)
                 | PLend (child : nat) | PJoinB (child : nat).   (* thread::scope: lend &handle to a scoped thread, join it *)
Record tcfg := { cur : cmd unit; rest : list pitem; gh : ghost; lt : list nat (* the scoped threads borrowing from this one *) }.
Record cfg := { ms : st; tc : list tcfg }.
Definition dtc : tcfg := {| cur := Ret tt; rest := []; gh := g_child 0; lt := [] |}.
Definition gettc (cf : cfg) (t : nat) : tcfg := nth t (tc cf) dtc.

Definition finished (x : tcfg) : Prop := cur x = Ret tt /\ rest x = [].

Inductive cstep : cfg -> cfg -> Prop :=
| C_event cf t s' c' g' :
    t < length (tc cf) -> started (getth (ms cf) t) = true ->
    estep t (ms cf) (cur (gettc cf t)) (gh (gettc cf t)) s' c' g' ->
    cstep cf {| ms := s'; tc := upd (tc cf) t {| cur := c'; rest := rest (gettc cf t); gh := g'; lt := lt (gettc cf t) |} |}
| C_next cf t c r :
    t < length (tc cf) -> started (getth (ms cf) t) = true ->
    cur (gettc cf t) = Ret tt -> rest (gettc cf t) = POp c :: r ->
    cstep cf {| ms := ms cf; tc := upd (tc cf) t {| cur := c; rest := r; gh := gh (gettc cf t); lt := lt (gettc cf t) |} |}
| C_spawn cf t ch k r s' :
    t < length (tc cf) -> started (getth (ms cf) t) = true ->
    cur (gettc cf t) = Ret tt -> rest (gettc cf t) = PSpawn ch k :: r ->
    step (ms cf) t (ASpawn ch k) = Ok s' ->
    cstep cf {| ms := s'; tc := upd (tc cf) t {| cur := Ret tt; rest := r; gh := g_give (gh (gettc cf t)) k; lt := lt (gettc cf t) |} |}
| C_join cf t ch r s' :
    t < length (tc cf) -> started (getth (ms cf) t) = true ->
    cur (gettc cf t) = Ret tt -> rest (gettc cf t) = PJoin ch :: r ->
    step (ms cf) t (AJoin ch) = Ok s' ->
    cstep cf {| ms := s'; tc := upd (tc cf) t {| cur := Ret tt; rest := r; gh := gh (gettc cf t); lt := lt (gettc cf t) |} |}
| C_lend cf t ch r s' :
    t < length (tc cf) -> started (getth (ms cf) t) = true ->
    cur (gettc cf t) = Ret tt -> rest (gettc cf t) = PLend ch :: r ->
    step (ms cf) t (ALend ch) = Ok s' ->
    cstep cf {| ms := s'; tc := upd (tc cf) t {| cur := Ret tt; rest := r; gh := g_lendout (lt (gettc cf t)) (gh (gettc cf t));
                                                lt := ch :: lt (gettc cf t) |} |}
| C_joinb cf t ch r s' :
    t < length (tc cf) -> started (getth (ms cf) t) = true ->
    cur (gettc cf t) = Ret tt -> rest (gettc cf t) = PJoinB ch :: r ->
    finished (gettc cf ch) ->                  (* the scope waits for the scoped thread to run to completion *)
    step (ms cf) t (AJoinB ch) = Ok s' ->
    cstep cf {| ms := s'; tc := upd (tc cf) t {| cur := Ret tt; rest := r;
                                                gh := g_joinb (List.remove Nat.eq_dec ch (lt (gettc cf t))) (gh (gettc cf t));
                                                lt := List.remove Nat.eq_dec ch (lt (gettc cf t)) |} |}.

Inductive csteps : cfg -> cfg -> Prop :=
| cs_refl cf : csteps cf cf
| cs_step cf cf1 cf2 : cstep cf cf1 -> csteps cf1 cf2 -> csteps cf cf2.

(* ---------- typing ---------- *)
(* [lent]: the scoped threads currently borrowing from this thread; while there are any, the lent handle is set aside:
   the thread works with the ghost [g_hide] leaves it — every other handle it holds, and reading / cloning through the
   lent one — and does not spawn *)
Fixpoint prog_ok (lent : list nat) (ps : list pitem) (g : ghost) : Prop :=
  match ps with
  | [] => lent = [] /\ g_refs g b0 = 0%nat /\ g_free g b0 = false      (* a thread ends holding nothing and owing nothing *)
  | POp c :: r => okc c g (fun _ g' => prog_ok lent r g')
  | PSpawn ch k :: r => (k <= g_refs g b0)%nat /\ kof ch = k /\ bof ch = false /\ prog_ok lent r (g_give g k)
  | PJoin ch :: r => prog_ok lent r g
  | PLend ch :: r => (lent = [] -> (0 < g_refs g b0)%nat /\ g_bor g b0 = false) /\ bof ch = true /\ prog_ok (ch :: lent) r (g_lendout lent g)
  | PJoinB ch :: r => In ch lent /\ prog_ok (List.remove Nat.eq_dec ch lent) r (g_joinb (List.remove Nat.eq_dec ch lent) g)
  end.

Definition agreeh (h : nat) (x : th) (g : ghost) : Prop :=
  refs x = g_refs g b0 + h /\ excl x = g_excl g b0 /\ mustfree x = g_free g b0 /\ (g_fen g = true -> cle (pend x) (clk x)).
Definition agree := agreeh 0.

Record WT (cf : cfg) : Prop := {
  wt_inv : Inv (ms cf);
  wt_len : length (tc cf) = length (ths (ms cf));
  wt_started : forall t, t < length (tc cf) -> started (getth (ms cf) t) = true ->
      agreeh (hid (lt (gettc cf t))) (getth (ms cf) t) (gh (gettc cf t))
      /\ okc (cur (gettc cf t)) (gh (gettc cf t)) (fun _ g' => prog_ok (lt (gettc cf t)) (rest (gettc cf t)) g')
      /\ (g_bor (gh (gettc cf t)) b0 = true -> lend (getth (ms cf) t) <> 0 \/ lt (gettc cf t) <> [] \/ finished (gettc cf t));
  wt_unstarted : forall t, t < length (tc cf) -> started (getth (ms cf) t) = false ->
      cur (gettc cf t) = Ret tt /\ gh (gettc cf t) = g_init t /\ lt (gettc cf t) = []
      /\ prog_ok [] (rest (gettc cf t)) (g_init t) /\ lend (getth (ms cf) t) = 0;
  (* who borrows from whom: exactly the scoped threads a thread has lent to and not yet joined *)
  wt_loans : forall u t, lend (getth (ms cf) u) = S t <-> (t < length (tc cf) /\ In u (lt (gettc cf t)));
}.

(* ---------- helpers ---------- *)
Lemma of_nat_eqb_1 n : (N.of_nat n =? 1)%N = Nat.eqb n 1.
Proof. destruct (Nat.eqb_spec n 1) as [->|H]; [reflexivity|]. apply N.eqb_neq. lia. Qed.

Lemma setf_eq {A} (f : bufid -> A) b x : setf f b x b = x.
Proof. unfold setf. rewrite Nat.eqb_refl. reflexivity. Qed.
Lemma setf_ne {A} (f : bufid -> A) b b' x : b <> b' -> setf f b x b' = f b'.
Proof. unfold setf. intros H. apply not_eq_sym in H. apply Nat.eqb_neq in H. rewrite H. reflexivity. Qed.

Lemma agree_other h x g g' :
  agreeh h x g -> g_refs g' b0 = g_refs g b0 -> g_excl g' b0 = g_excl g b0 -> g_free g' b0 = g_free g b0 ->
  (g_fen g' = true -> g_fen g = true) -> agreeh h x g'.
Proof. intros (A1 & A2 & A3 & A4) E1 E2 E3 E4. unfold agreeh. rewrite E1, E2, E3. repeat split; auto. Qed.

Lemma agree_same_local h x x' g : agreeh h x g -> same_local x x' -> agreeh h x' g.
Proof.
  intros (A1 & A2 & A3 & A4) (L1 & L2 & L3 & L4 & L5). unfold agreeh. rewrite L1, L2, L3, L4.
  repeat split; auto. intros Hf. eapply cle_trans; [apply A4; exact Hf|exact L5].
Qed.

(* what a sound event step establishes *)
Definition estep_post (h t : nat) (s : st) (s' : st) (c' : cmd unit) (g' : ghost) (Q : unit -> ghost -> Prop) : Prop :=
  Inv s' /\ okc c' g' Q /\ agreeh h (getth s' t) g' /\ length (ths s') = length (ths s)
  /\ started (getth s' t) = true
  /\ (forall u, u <> t -> getth s' u = getth s u)
  /\ (forall u, lend (getth s' u) = lend (getth s u)).

Lemma post_silent h t s c' g' Q :
  Inv s -> started (getth s t) = true -> okc c' g' Q -> agreeh h (getth s t) g' -> estep_post h t s s c' g' Q.
Proof. intros. unfold estep_post. auto 10. Qed.

Lemma post_mach h t s a s' c' g' Q :
  Inv s -> step s t a = Ok s' -> second a = None ->
  okc c' g' Q -> (act_spec s t a s' -> agreeh h (getth s' t) g') -> estep_post h t s s' c' g' Q.
Proof.
  intros I Hs Hns Hok Hag. destruct (step_spec s t a s' Hs) as (Ht & Hst & Hst' & Hlen & Hoth & Hlendt & Hspec).
  assert (Hoth' : forall u, u <> t -> getth s' u = getth s u) by (intros u Hu; apply Hoth; [exact Hu|rewrite Hns; discriminate]).
  unfold estep_post. split; [eapply pres; eauto|]. split; [exact Hok|]. split; [apply Hag; exact Hspec|].
  split; [exact Hlen|]. split; [exact Hst'|]. split; [exact Hoth'|].
  intros u. destruct (Nat.eq_dec u t) as [->|Hu]; [exact Hlendt|rewrite Hoth' by exact Hu; reflexivity].
Qed.

Lemma read_post h t s s' c' g Q :
  Inv s -> read_step s t s' -> okc c' g Q -> agreeh h (getth s t) g -> estep_post h t s s' c' g Q.
Proof.
  intros I [Hs|[Hs|Hs]] Hok Hag.
  - eapply post_mach; [exact I|exact Hs|reflexivity|exact Hok|]. intros (_ & Hl). eapply agree_same_local; eauto.
  - eapply post_mach; [exact I|exact Hs|reflexivity|exact Hok|]. intros (_ & Hl). eapply agree_same_local; eauto.
  - eapply post_mach; [exact I|exact Hs|reflexivity|exact Hok|]. intros Hl. eapply agree_same_local; eauto.
Qed.

Lemma write_post h t s s' c' g Q :
  Inv s -> step s t AWrite = Ok s' -> okc c' g Q -> agreeh h (getth s t) g -> estep_post h t s s' c' g Q.
Proof.
  intros I Hs Hok Hag. eapply post_mach; [exact I|exact Hs|reflexivity|exact Hok|]. intros (_ & Hl). eapply agree_same_local; eauto.
Qed.

(* ---------- every event step preserves the typing ---------- *)
Lemma estep_sound h t s c g s' c' g' (Q : unit -> ghost -> Prop) :
  Inv s -> started (getth s t) = true -> agreeh h (getth s t) g -> okc c g Q -> estep t s c g s' c' g' ->
  estep_post h t s s' c' g' Q.
Proof.
  intros I Hst Hag Hok Hstep. destruct Hstep; cbn [okc] in Hok.
  - (* alloc refused *) destruct Hok as (K1 & _). apply post_silent; [exact I|exact Hst|exact K1|exact Hag].
  - (* alloc *) destruct Hok as (_ & K2). apply post_silent; [exact I|exact Hst|apply (K2 b); assumption|].
    eapply agree_other; [exact Hag| | | |]; unfold g_alloc; cbn [g_refs g_excl g_free g_fen]; rewrite ?setf_ne by assumption; auto.
  - (* realloc, other *) destruct Hok as (_ & K2). apply post_silent; [exact I|exact Hst|apply K2|exact Hag].
  - (* realloc b0 *) destruct Hok as (_ & K2). eapply write_post; [exact I|eassumption|apply K2|exact Hag].
  - (* dealloc, other *) destruct Hok as (_ & _ & K3). apply post_silent; [exact I|exact Hst|exact K3|].
    eapply agree_other; [exact Hag| | | |]; unfold g_dealloc; cbn [g_refs g_excl g_free g_fen]; rewrite ?setf_ne by assumption; auto.
  - (* dealloc b0 *) destruct Hok as (_ & _ & K3). eapply post_mach; [exact I|eassumption|reflexivity|exact K3|].
    intros (_ & R1 & R2 & R3 & R4 & R5). destruct Hag as (A1 & A2 & A3 & A4).
    unfold agreeh, g_dealloc; cbn [g_refs g_excl g_free g_fen]. rewrite setf_eq. rewrite R1, R2, R3, R4.
    split; [exact A1|]. split; [|split; [reflexivity|]].
    + (* excl: the freeing thread holds no reference, so it was not exclusive *)
      destruct (g_excl g b0) eqn:He; [|reflexivity]. exfalso.
      assert (He' : excl (T s t) = true) by (unfold T; exact A2).
      destruct (J5 s I t He') as (_ & Hr1 & _).
      match goal with Hs : step _ _ AFree = Ok _ |- _ => destruct (step_spec _ _ _ _ Hs) as (_ & _ & _ & _ & _ & _ & Hm & _) end. cbn in Hm.
      apply (mustfree_no_refs s t t I Hm). rewrite Hr1. lia.
    + intros Hf. eapply cle_trans; [apply A4; exact Hf|exact R5].
  - (* hdr init, other *) destruct Hok as (_ & K2). apply post_silent; [exact I|exact Hst|exact K2|exact Hag].
  - destruct Hok as (_ & K2). eapply write_post; [exact I|eassumption|exact K2|exact Hag].
  - (* hdr cap, other *) destruct Hok as (_ & K2). apply post_silent; [exact I|exact Hst|apply K2|exact Hag].
  - destruct Hok as (_ & K2). eapply read_post; [exact I|eassumption|apply K2|exact Hag].
  - (* inc, other *) destruct Hok as (_ & K2). apply post_silent; [exact I|exact Hst|apply K2|].
    eapply agree_other; [exact Hag| | | |]; unfold g_inc; cbn [g_refs g_excl g_free g_fen]; rewrite ?setf_ne by assumption; auto. discriminate.
  - (* inc b0 *) destruct Hok as (_ & K2). eapply post_mach; [exact I|eassumption|reflexivity|apply K2|].
    intros (_ & R1 & R2 & R3). destruct Hag as (A1 & A2 & A3 & A4).
    unfold agreeh, g_inc; cbn [g_refs g_excl g_free g_fen]. rewrite !setf_eq. rewrite R1, R2, R3, A1.
    split; [reflexivity|]. split; [reflexivity|]. split; [exact A3|discriminate].
  - (* inc b0 through a borrowed handle *) destruct Hok as (_ & K2). eapply post_mach; [exact I|eassumption|reflexivity|apply K2|].
    intros (R1 & R2 & R3). destruct Hag as (A1 & A2 & A3 & A4).
    unfold agreeh, g_inc; cbn [g_refs g_excl g_free g_fen]. rewrite !setf_eq. rewrite R1, R2, R3, A1.
    split; [reflexivity|]. split; [reflexivity|]. split; [exact A3|discriminate].
  - (* dec, other *) destruct Hok as (_ & _ & _ & K2). apply post_silent; [exact I|exact Hst|apply K2|].
    eapply agree_other; [exact Hag| | | |]; unfold g_dec; cbn [g_refs g_excl g_free g_fen]; rewrite ?setf_ne by assumption; auto. discriminate.
  - (* dec b0 *) destruct Hok as (K0 & _ & _ & K2). eapply post_mach; [exact I|eassumption|reflexivity|apply K2|].
    intros (_ & _ & R1 & R2 & R3). destruct Hag as (A1 & A2 & A3 & A4).
    unfold agreeh, g_dec; cbn [g_refs g_excl g_free g_fen]. rewrite !setf_eq. rewrite R1, R2, R3, A1, of_nat_eqb_1.
    split; [lia|]. split; [reflexivity|]. split; [reflexivity|discriminate].
  - (* load, other *) destruct Hok as (_ & _ & K2). apply post_silent; [exact I|exact Hst|apply K2|].
    eapply agree_other; [exact Hag| | | |]; unfold g_load; cbn [g_refs g_excl g_free g_fen]; rewrite ?setf_ne by assumption; auto.
  - (* load b0 *) destruct Hok as (_ & _ & K2). eapply post_mach; [exact I|eassumption|reflexivity|apply K2|].
    intros (_ & m' & Hm' & R1 & R2 & R3 & R4 & R5).
    match goal with Hn : nth_error _ _ = Some ?mm |- _ =>
      tryif constr_eq mm m' then fail else (assert (Em : m' = mm) by congruence) end. subst m'.
    destruct Hag as (A1 & A2 & A3 & A4).
    unfold agreeh, g_load; cbn [g_refs g_excl g_free g_fen]. rewrite !setf_eq. rewrite R1, R2, R3, R4, A1, A2, of_nat_eqb_1.
    split; [reflexivity|]. split; [reflexivity|]. split; [exact A3|].
    intros Hf. eapply cle_trans; [apply A4; exact Hf|exact R5].
  - (* acquire fence *) eapply post_mach; [exact I|eassumption|reflexivity|exact Hok|].
    intros (R1 & R2 & R3 & R4 & R5 & R6). destruct Hag as (A1 & A2 & A3 & A4).
    unfold agreeh, g_fence; cbn [g_refs g_excl g_free g_fen]. rewrite R1, R2, R3, R4.
    split; [exact A1|]. split; [exact A2|]. split; [exact A3|]. intros _. exact R6.
  - (* weaker fence: nothing *) apply post_silent; [exact I|exact Hst|exact Hok|].
    eapply agree_other; [exact Hag| | | |]; unfold g_fence; cbn [g_refs g_excl g_free g_fen]; auto.
    match goal with Hq : acq _ = false |- _ => rewrite Hq end. rewrite orb_false_r. auto.
  - (* read static *) apply post_silent; [exact I|exact Hst|apply Hok|exact Hag].
  - (* read, other *) destruct Hok as (_ & K2). apply post_silent; [exact I|exact Hst|apply K2|exact Hag].
  - destruct Hok as (_ & K2). eapply read_post; [exact I|eassumption|apply K2|exact Hag].
  - (* write, other *) destruct Hok as (_ & K2). apply post_silent; [exact I|exact Hst|exact K2|exact Hag].
  - destruct Hok as (_ & K2). eapply write_post; [exact I|eassumption|exact K2|exact Hag].
  - (* move, other *) destruct Hok as (_ & K2). apply post_silent; [exact I|exact Hst|exact K2|exact Hag].
  - destruct Hok as (_ & K2). eapply write_post; [exact I|eassumption|exact K2|exact Hag].
Qed.

(* no event changes who borrows *)
Lemma estep_bor t s c g s' c' g' : estep t s c g s' c' g' -> g_bor g' = g_bor g.
Proof. intros H. destruct H; reflexivity. Qed.

(* ---------- configurations ---------- *)
Lemma gettc_upd_eq cf t x s' : t < length (tc cf) -> gettc {| ms := s'; tc := upd (tc cf) t x |} t = x.
Proof. intros H. unfold gettc. cbn [tc]. apply nth_upd_eq. exact H. Qed.
Lemma gettc_upd_ne cf t u x s' : u <> t -> gettc {| ms := s'; tc := upd (tc cf) t x |} u = gettc cf u.
Proof. intros H. unfold gettc. cbn [tc]. apply nth_upd_ne. exact H. Qed.

Lemma WT_update cf s' t x :
  WT cf -> Inv s' -> length (ths s') = length (ths (ms cf)) -> t < length (tc cf) ->
  started (getth s' t) = true -> agreeh (hid (lt x)) (getth s' t) (gh x) ->
  okc (cur x) (gh x) (fun _ g' => prog_ok (lt x) (rest x) g') ->
  (g_bor (gh x) b0 = true -> lend (getth s' t) <> 0 \/ lt x <> [] \/ finished x) ->
  (forall u, u <> t ->
     (* untouched *)
     getth s' u = getth (ms cf) u
     (* started by this step *)
     \/ (started (getth (ms cf) u) = false /\ started (getth s' u) = true /\ agree (getth s' u) (g_init u)
         /\ (g_bor (g_init u) b0 = true -> lend (getth s' u) <> 0))
     (* a scoped thread that has run to completion and is joined: only its lend field is reset *)
     \/ (started (getth (ms cf) u) = true /\ started (getth s' u) = true /\ finished (gettc cf u)
         /\ (forall h g, agreeh h (getth (ms cf) u) g -> agreeh h (getth s' u) g))) ->
  (forall u, started (getth s' u) = false -> lend (getth s' u) = 0) ->
  (forall u v, lend (getth s' u) = S v <->
               (v < length (tc cf) /\ In u (lt (gettc {| ms := s'; tc := upd (tc cf) t x |} v)))) ->
  WT {| ms := s'; tc := upd (tc cf) t x |}.
Proof.
  intros [W1 W2 W3 W4 W5] I' Hlen Ht Hst Hag Hok Hbor Hoth Hun Hloans. split; cbn [ms].
  - exact I'.
  - cbn [tc]. rewrite upd_length. congruence.
  - intros u Hu Hsu. cbn [tc] in Hu. rewrite upd_length in Hu.
    destruct (Nat.eq_dec u t) as [->|Hne].
    + rewrite gettc_upd_eq by exact Ht. auto.
    + rewrite gettc_upd_ne by exact Hne. destruct (Hoth u Hne) as [E|[(E1 & E2 & E3 & E4)|(E1 & E2 & E3 & E4)]].
      * rewrite E in *. apply W3; assumption.
      * destruct (W4 u Hu E1) as (C1 & C2 & C3 & C4 & C5). rewrite C1, C2, C3. split; [exact E3|]. split; [cbn [okc]; exact C4|].
        intros Hb. left. apply E4. exact Hb.
      * destruct (W3 u Hu E1) as (A & B & D). split; [apply E4; exact A|]. split; [exact B|].
        intros _. right. right. exact E3.
  - intros u Hu Hsu. cbn [tc] in Hu. rewrite upd_length in Hu.
    destruct (Nat.eq_dec u t) as [->|Hne]; [congruence|].
    rewrite gettc_upd_ne by exact Hne. destruct (Hoth u Hne) as [E|[(E1 & E2 & _)|(E1 & E2 & _)]]; [|congruence|congruence].
    rewrite E in Hsu. destruct (W4 u Hu Hsu) as (C1 & C2 & C3 & C4 & C5). split; [exact C1|]. split; [exact C2|].
    split; [exact C3|]. split; [exact C4|]. apply Hun. rewrite E. exact Hsu.
  - intros u v. cbn [tc]. rewrite upd_length. apply Hloans.
Qed.

(* the loans are unchanged by a step that changes neither a lend field nor a lent list *)
Lemma loans_same cf s' t x :
  WT cf -> t < length (tc cf) -> (forall u, lend (getth s' u) = lend (getth (ms cf) u)) -> lt x = lt (gettc cf t) ->
  forall u v, lend (getth s' u) = S v <-> (v < length (tc cf) /\ In u (lt (gettc {| ms := s'; tc := upd (tc cf) t x |} v))).
Proof.
  intros W Ht Hl Hx u v. rewrite Hl. rewrite (wt_loans cf W u v).
  destruct (Nat.eq_dec v t) as [->|Hne]; [rewrite gettc_upd_eq by exact Ht; rewrite Hx|rewrite gettc_upd_ne by exact Hne]; reflexivity.
Qed.
Lemma unstarted_same cf s' :
  WT cf -> length (ths s') = length (ths (ms cf)) ->
  (forall u, started (getth s' u) = false -> started (getth (ms cf) u) = false /\ lend (getth s' u) = lend (getth (ms cf) u)) ->
  forall u, started (getth s' u) = false -> lend (getth s' u) = 0.
Proof.
  intros W Hlen H u Hu. destruct (H u Hu) as (H1 & H2). rewrite H2.
  destruct (Nat.lt_ge_cases u (length (tc cf))) as [Hlt|Hge].
  - destruct (wt_unstarted cf W u Hlt H1) as (_ & _ & _ & _ & E). exact E.
  - unfold getth. rewrite nth_overflow by (rewrite <- (wt_len cf W); exact Hge). reflexivity.
Qed.

Theorem typed_step cf cf' : WT cf -> cstep cf cf' -> WT cf'.
Proof.
  intros W Hs. pose proof W as [W1 W2 W3 W4 W5].
  destruct Hs as [cf t s' c' g' Ht Hst He|cf t c r Ht Hst Hc Hr|cf t ch k r s' Ht Hst Hc Hr Hm|cf t ch r s' Ht Hst Hc Hr Hm
                 |cf t ch r s' Ht Hst Hc Hr Hm|cf t ch r s' Ht Hst Hc Hr Hfin Hm].
  - (* an event *)
    destruct (W3 t Ht Hst) as (Hag & Hok & Hbor).
    destruct (estep_sound _ t _ _ _ _ _ _ _ W1 Hst Hag Hok He) as (I' & Hok' & Hag' & Hlen & Hst' & Hoth & Hld).
    apply WT_update; [exact W|exact I'|exact Hlen|exact Ht|exact Hst'|exact Hag'|cbn [cur gh lt rest]; exact Hok'| | | |].
    + cbn [gh lt]. rewrite (estep_bor _ _ _ _ _ _ _ He). rewrite Hld. intros Hb.
      destruct (Hbor Hb) as [Hl|[Hl|(Hf & _)]]; [left; exact Hl|right; left; exact Hl|].
      rewrite Hf in He. inversion He.
    + intros u Hu. left. apply Hoth. exact Hu.
    + eapply unstarted_same; [exact W|exact Hlen|]. intros u Hu. rewrite Hld. split; [|reflexivity].
      destruct (Nat.eq_dec u t) as [->|Hne]; [congruence|]. rewrite Hoth in Hu by exact Hne. exact Hu.
    + apply loans_same; [exact W|exact Ht|exact Hld|reflexivity].
  - (* next operation *)
    destruct (W3 t Ht Hst) as (Hag & Hok & Hbor). rewrite Hc, Hr in Hok. cbn [okc prog_ok] in Hok.
    apply WT_update; [exact W|exact W1|reflexivity|exact Ht|exact Hst|exact Hag| | | | |].
    + cbn [cur gh lt rest]. exact Hok.
    + cbn [gh lt]. intros Hb. destruct (Hbor Hb) as [Hl|[Hl|(_ & Hf)]]; [left; exact Hl|right; left; exact Hl|]. rewrite Hr in Hf. discriminate.
    + intros u Hu. left. reflexivity.
    + eapply unstarted_same; [exact W|reflexivity|]. auto.
    + apply loans_same; [exact W|exact Ht|reflexivity|reflexivity].
  - (* spawn *)
    destruct (W3 t Ht Hst) as (Hag & Hok & Hbor). rewrite Hc, Hr in Hok. cbn [okc prog_ok] in Hok.
    destruct Hok as (Hk & Hkof & Hbof & Hrest).
    destruct (step_spec _ _ _ _ Hm) as (_ & _ & Hst' & Hlen & Hoth & Hlendt & Hspec). cbn [act_spec] in Hspec.
    destruct Hspec as (Hct & _ & Hsc & Hcl & R1 & R2 & R3 & R4 & R5 & C1 & C2 & C3 & C4 & C5 & C6).
    assert (Hlch : lend (getth (ms cf) ch) = 0).
    { assert (Hch : ch < length (tc cf)) by congruence. destruct (W4 ch Hch Hsc) as (_ & _ & _ & _ & E). exact E. }
    assert (Hld : forall u, lend (getth s' u) = lend (getth (ms cf) u)).
    { intros u. destruct (Nat.eq_dec u t) as [->|Hut]; [exact Hlendt|].
      destruct (Nat.eq_dec u ch) as [->|Huc]; [congruence|]. rewrite Hoth; [reflexivity|exact Hut|cbn [second]; congruence]. }
    apply WT_update; [exact W| |exact Hlen|exact Ht|exact Hst'| | | | | |].
    + eapply pres; eauto.
    + cbn [gh lt]. destruct Hag as (A1 & A2 & A3 & A4).
      unfold agreeh, g_give; cbn [g_refs g_excl g_free g_fen].
      rewrite !setf_eq. rewrite R1, R2, R3, R4. split; [lia|]. split; [reflexivity|]. split; [exact A3|].
      intros Hf. eapply cle_trans; [apply A4; exact Hf|exact R5].
    + cbn [cur gh lt rest okc]. exact Hrest.
    + cbn [gh lt]. unfold g_give. cbn [g_bor]. rewrite Hlendt. intros Hb.
      destruct (Hbor Hb) as [Hl|[Hl|(_ & Hf)]]; [left; exact Hl|right; left; exact Hl|]. rewrite Hr in Hf. discriminate.
    + intros u Hu. destruct (Nat.eq_dec u ch) as [->|Hne].
      * right. left. split; [exact Hsc|]. split; [exact C5|]. unfold g_init. rewrite Hbof. split.
        -- unfold agree, agreeh, g_child; cbn [g_refs g_excl g_free g_fen]. rewrite Nat.eqb_refl. rewrite C1, C2, C3, Hkof. repeat split; auto. discriminate.
        -- unfold g_child. cbn [g_bor]. discriminate.
      * left. apply Hoth; [exact Hu|]. cbn [second]. intros [= E]. apply Hne. symmetry. exact E.
    + eapply unstarted_same; [exact W|exact Hlen|]. intros u Hu. split; [|apply Hld].
      destruct (Nat.eq_dec u t) as [->|Hut]; [congruence|]. destruct (Nat.eq_dec u ch) as [->|Huc]; [congruence|].
      rewrite Hoth in Hu; [exact Hu|exact Hut|cbn [second]; congruence].
    + apply loans_same; [exact W|exact Ht|exact Hld|reflexivity].
  - (* join *)
    destruct (W3 t Ht Hst) as (Hag & Hok & Hbor). rewrite Hc, Hr in Hok. cbn [okc prog_ok] in Hok.
    destruct (step_spec _ _ _ _ Hm) as (_ & _ & Hst' & Hlen & Hoth & Hlendt & Hspec). cbn [act_spec] in Hspec.
    assert (Hld : forall u, lend (getth s' u) = lend (getth (ms cf) u)).
    { intros u. destruct (Nat.eq_dec u t) as [->|Hut]; [exact Hlendt|]. rewrite Hoth; [reflexivity|exact Hut|cbn [second]; discriminate]. }
    apply WT_update; [exact W| |exact Hlen|exact Ht|exact Hst'| | | | | |].
    + eapply pres; eauto.
    + cbn [gh lt]. eapply agree_same_local; eauto.
    + cbn [cur gh lt rest okc]. exact Hok.
    + cbn [gh lt]. rewrite Hlendt. intros Hb. destruct (Hbor Hb) as [Hl|[Hl|(_ & Hf)]]; [left; exact Hl|right; left; exact Hl|]. rewrite Hr in Hf. discriminate.
    + intros u Hu. left. apply Hoth; [exact Hu|]. cbn [second]. discriminate.
    + eapply unstarted_same; [exact W|exact Hlen|]. intros u Hu. split; [|apply Hld].
      destruct (Nat.eq_dec u t) as [->|Hut]; [congruence|]. rewrite Hoth in Hu; [exact Hu|exact Hut|cbn [second]; discriminate].
    + apply loans_same; [exact W|exact Ht|exact Hld|reflexivity].
  - (* lend *)
    destruct (W3 t Ht Hst) as (Hag & Hok & Hbor). rewrite Hc, Hr in Hok. cbn [okc prog_ok] in Hok.
    destruct Hok as (Hfirst & Hbof & Hrest).
    destruct (step_spec _ _ _ _ Hm) as (_ & _ & Hst' & Hlen & Hoth & Hlendt & Hspec). cbn [act_spec] in Hspec.
    destruct (lend_spec _ _ _ _ Hm) as (Hct & Hcl & Hsc & L1 & L2 & L3 & L4 & L5).
    destruct Hspec as (R1 & R2 & R3 & R4 & R5).
    apply WT_update; [exact W| |exact Hlen|exact Ht|exact Hst'| | | | | |].
    + eapply pres; eauto.
    + cbn [gh lt hid]. destruct Hag as (A1 & A2 & A3 & A4).
      destruct (lt (gettc cf t)) as [|u0 l0] eqn:Elt; cbn [g_lendout hid] in *.
      * (* the first loan: the lent handle is set aside *)
        destruct (Hfirst eq_refl) as (Hrf & Hnb). unfold agreeh, g_hide; cbn [g_refs g_excl g_free g_fen].
        rewrite !setf_eq. rewrite R1, R2, R3, R4. split; [lia|]. split; [reflexivity|]. split; [exact A3|].
        intros Hf. eapply cle_trans; [apply A4; exact Hf|exact R5].
      * (* already lending: not exclusive (J10) *)
        assert (Hex : excl (getth (ms cf) t) = false).
        { assert (Hl0 : lend (getth (ms cf) u0) = S t) by (apply (proj2 (W5 u0 t)); split; [exact Ht|rewrite Elt; left; reflexivity]).
          destruct (J10 _ W1 u0 t Hl0) as (_ & _ & _ & _ & He & _). exact He. }
        unfold agreeh. rewrite R1, R2, R3, R4. split; [exact A1|]. split; [congruence|]. split; [exact A3|].
        intros Hf. eapply cle_trans; [apply A4; exact Hf|exact R5].
    + cbn [cur gh lt rest okc]. exact Hrest.
    + cbn [gh lt]. intros _. right. left. discriminate.
    + intros u Hu. destruct (Nat.eq_dec u ch) as [->|Hne].
      * right. left. split; [exact Hsc|]. split; [exact L1|]. unfold g_init. rewrite Hbof. split.
        -- unfold agree, agreeh, g_childb; cbn [g_refs g_excl g_free g_fen]. rewrite L2, L3, L4. repeat split; auto. discriminate.
        -- intros _. rewrite L5. discriminate.
      * left. apply Hoth; [exact Hu|]. cbn [second]. intros [= E]. apply Hne. symmetry. exact E.
    + intros u Hu. destruct (Nat.eq_dec u t) as [->|Hut]; [congruence|]. destruct (Nat.eq_dec u ch) as [->|Huc]; [congruence|].
      assert (E : getth s' u = getth (ms cf) u) by (apply Hoth; [exact Hut|cbn [second]; congruence]).
      rewrite E in *. destruct (Nat.lt_ge_cases u (length (tc cf))) as [Hlt'|Hge].
      * destruct (W4 u Hlt' Hu) as (_ & _ & _ & _ & E0). exact E0.
      * unfold getth. rewrite nth_overflow by (rewrite <- W2; exact Hge). reflexivity.
    + (* loans: ch now borrows from t *)
      assert (Hlch : lend (getth (ms cf) ch) = 0).
      { assert (Hch : ch < length (tc cf)) by congruence. destruct (W4 ch Hch Hsc) as (_ & _ & _ & _ & E). exact E. }
      intros u v. destruct (Nat.eq_dec u ch) as [->|Huc].
      * rewrite L5. split.
        -- intros [= <-]. split; [exact Ht|]. rewrite gettc_upd_eq by exact Ht. cbn [lt]. left. reflexivity.
        -- intros (Hv & Hin). destruct (Nat.eq_dec v t) as [->|Hvt]; [reflexivity|].
           rewrite gettc_upd_ne in Hin by exact Hvt. pose proof (proj2 (W5 ch v) (conj Hv Hin)) as Ebad. congruence.
      * assert (E : lend (getth s' u) = lend (getth (ms cf) u)).
        { destruct (Nat.eq_dec u t) as [->|Hut]; [exact Hlendt|]. rewrite Hoth; [reflexivity|exact Hut|cbn [second]; congruence]. }
        rewrite E, (W5 u v). destruct (Nat.eq_dec v t) as [->|Hvt].
        -- rewrite gettc_upd_eq by exact Ht. cbn [lt]. split; intros (H1 & H2); (split; [exact H1|]).
           ++ right. exact H2.
           ++ destruct H2 as [H2|H2]; [congruence|exact H2].
        -- rewrite gettc_upd_ne by exact Hvt. reflexivity.
  - (* the scope ends for one scoped thread *)
    destruct (W3 t Ht Hst) as (Hag & Hok & Hbor). rewrite Hc, Hr in Hok. cbn [okc prog_ok] in Hok.
    destruct Hok as (Hin & Hrest).
    destruct (step_spec _ _ _ _ Hm) as (_ & _ & Hst' & Hlen & Hoth & Hlendt & Hspec). cbn [act_spec] in Hspec.
    destruct (joinb_spec _ _ _ _ Hm) as (Hct & Hcl & B1 & B2 & B3 & B4 & B5 & B6).
    assert (Hchl : lend (getth (ms cf) ch) = S t) by (apply (proj2 (W5 ch t)); split; [exact Ht|exact Hin]).
    assert (Hsch : started (getth (ms cf) ch) = true).
    { destruct (started (getth (ms cf) ch)) eqn:E; [reflexivity|]. assert (Hch : ch < length (tc cf)) by congruence.
      destruct (W4 ch Hch E) as (_ & _ & _ & _ & E0). congruence. }
    apply WT_update; [exact W| |exact Hlen|exact Ht|exact Hst'| | | | | |].
    + eapply pres; eauto.
    + cbn [gh lt].
      assert (Hh : hid (lt (gettc cf t)) = 1) by (destruct (lt (gettc cf t)); [contradiction|reflexivity]).
      rewrite Hh in Hag. pose proof (agree_same_local _ _ _ _ Hag Hspec) as Hag2.
      destruct (List.remove Nat.eq_dec ch (lt (gettc cf t))) as [|u1 l1]; cbn [g_joinb hid]; [|exact Hag2].
      (* the last loan ends: the lent handle is the lender's own again *)
      destruct Hag2 as (A1 & A2 & A3 & A4). unfold agreeh, g_unhide; cbn [g_refs g_excl g_free g_fen]. rewrite setf_eq.
      split; [lia|]. split; [exact A2|]. split; [exact A3|exact A4].
    + cbn [cur gh lt rest okc]. exact Hrest.
    + cbn [gh lt]. destruct (List.remove Nat.eq_dec ch (lt (gettc cf t))) as [|u1 l1]; cbn [g_joinb].
      * unfold g_unhide. cbn [g_bor]. rewrite setf_eq. discriminate.
      * intros _. right. left. discriminate.
    + intros u Hu. destruct (Nat.eq_dec u ch) as [->|Hne].
      * right. right. split; [exact Hsch|]. split; [rewrite B6; exact Hsch|]. split; [exact Hfin|].
        intros h g (A1 & A2 & A3 & A4). unfold agreeh. rewrite B1, B2, B3, B4, B5. auto.
      * left. apply Hoth; [exact Hu|]. cbn [second]. intros [= E]. apply Hne. symmetry. exact E.
    + intros u Hu. destruct (Nat.eq_dec u t) as [->|Hut]; [congruence|]. destruct (Nat.eq_dec u ch) as [->|Huc]; [congruence|].
      assert (E : getth s' u = getth (ms cf) u) by (apply Hoth; [exact Hut|cbn [second]; congruence]).
      rewrite E in *. destruct (Nat.lt_ge_cases u (length (tc cf))) as [Hlt'|Hge].
      * destruct (W4 u Hlt' Hu) as (_ & _ & _ & _ & E0). exact E0.
      * unfold getth. rewrite nth_overflow by (rewrite <- W2; exact Hge). reflexivity.
    + (* loans: ch no longer borrows *)
      intros u v. destruct (Nat.eq_dec u ch) as [->|Huc].
      * rewrite (joinb_lend _ _ _ _ Hm). split; [discriminate|]. intros (Hv & Hin').
        destruct (Nat.eq_dec v t) as [->|Hvt].
        -- rewrite gettc_upd_eq in Hin' by exact Ht. cbn [lt] in Hin'. apply remove_In in Hin'. contradiction.
        -- rewrite gettc_upd_ne in Hin' by exact Hvt. pose proof (proj2 (W5 ch v) (conj Hv Hin')) as Ebad. congruence.
      * assert (E : lend (getth s' u) = lend (getth (ms cf) u)).
        { destruct (Nat.eq_dec u t) as [->|Hut]; [exact Hlendt|]. rewrite Hoth; [reflexivity|exact Hut|cbn [second]; congruence]. }
        rewrite E, (W5 u v). destruct (Nat.eq_dec v t) as [->|Hvt].
        -- rewrite gettc_upd_eq by exact Ht. cbn [lt]. split; intros (H1 & H2); (split; [exact H1|]).
           ++ apply in_in_remove; [exact Huc|exact H2].
           ++ apply in_remove in H2. exact (proj1 H2).
        -- rewrite gettc_upd_ne by exact Hvt. reflexivity.
Qed.

Theorem typed_steps cf cf' : WT cf -> csteps cf cf' -> WT cf'.
Proof. intros W Hs. induction Hs as [|cf cf1 cf2 H1 _ IH]; [exact W|]. apply IH. eapply typed_step; eauto. Qed.

(* no reachable configuration can take a machine step that is a race, a use after free or a double free — whatever
   thread, whatever action *)
Theorem typed_safe cf cf' t a e : WT cf -> csteps cf cf' -> step (ms cf') t a <> Err e.
Proof. intros W Hs. apply safe. exact (wt_inv _ (typed_steps _ _ W Hs)). Qed.

(* ---------- progress: the thread-local precondition of every head event holds ---------- *)
Ltac open_step E Ht Hst :=
  unfold step in E;
  match type of E with context [Nat.ltb ?t (length ?l)] =>
    destruct (Nat.ltb_spec t (length l)) as [?|?]; [|lia] end;
  cbn [negb] in E; rewrite Hst in E; cbn [negb] in E.

Lemma ok_read s t : Inv s -> t < length (ths s) -> started (getth s t) = true -> 0 < refs (getth s t) ->
  exists s', step s t ARead = Ok s'.
Proof.
  intros I Ht Hst Hr. destruct (step s t ARead) as [s'|e|] eqn:E; [eauto|exfalso; eapply safe; eauto|exfalso].
  open_step E Ht Hst. destruct (Nat.ltb_spec 0 (refs (getth s t))); [|lia]. cbn [negb] in E.
  destruct (Mach.live s); cbn [negb] in E; [|discriminate]. destruct (cleb (Wc s) _); discriminate.
Qed.
Lemma ok_readm s t : Inv s -> t < length (ths s) -> started (getth s t) = true ->
  mustfree (getth s t) = true -> cle (pend (getth s t)) (clk (getth s t)) -> exists s', step s t AReadM = Ok s'.
Proof.
  intros I Ht Hst Hm Hf. destruct (step s t AReadM) as [s'|e|] eqn:E; [eauto|exfalso; eapply safe; eauto|exfalso].
  open_step E Ht Hst. apply cleb_spec in Hf. rewrite Hm, Hf in E. cbn [negb andb] in E.
  destruct (Mach.live s); cbn [negb] in E; [|discriminate]. destruct (cleb (Wc s) _); discriminate.
Qed.
Lemma noloan_lends_from s t : (forall u, lend (getth s u) = 0) -> lends_from s t = false.
Proof.
  intros H. unfold lends_from. destruct (existsb _ (ths s)) eqn:E; [|reflexivity].
  apply existsb_exists in E. destruct E as (x & Hin & Hx). apply Nat.eqb_eq in Hx.
  destruct (In_nth _ _ dth Hin) as (n & _ & En). specialize (H n). unfold getth in H. rewrite En in H. congruence.
Qed.

Lemma ok_write s t : Inv s -> t < length (ths s) -> started (getth s t) = true -> excl (getth s t) = true ->
  lends_from s t = false -> exists s', step s t AWrite = Ok s'.
Proof.
  intros I Ht Hst He Hlf. destruct (step s t AWrite) as [s'|e|] eqn:E; [eauto|exfalso; eapply safe; eauto|exfalso].
  open_step E Ht Hst. rewrite He, Hlf in E. cbn [negb orb] in E.
  destruct (Mach.live s); cbn [negb] in E; [|discriminate]. destruct (_ && _); discriminate.
Qed.
Lemma ok_clone_step s t : Inv s -> t < length (ths s) -> started (getth s t) = true -> 0 < refs (getth s t) ->
  exists s', step s t AClone = Ok s'.
Proof.
  intros I Ht Hst Hr. destruct (step s t AClone) as [s'|e|] eqn:E; [eauto|exfalso; eapply safe; eauto|exfalso].
  open_step E Ht Hst. destruct (Nat.ltb_spec 0 (refs (getth s t))); [|lia]. cbn [negb] in E.
  destruct (Mach.live s); discriminate.
Qed.
Lemma ok_release s t : Inv s -> t < length (ths s) -> started (getth s t) = true -> 0 < refs (getth s t) ->
  mustfree (getth s t) = false -> (lends_from s t = false \/ 2 <= refs (getth s t)) -> exists s', step s t ARelease = Ok s'.
Proof.
  intros I Ht Hst Hr Hm Hlf. destruct (step s t ARelease) as [s'|e|] eqn:E; [eauto|exfalso; eapply safe; eauto|exfalso].
  open_step E Ht Hst. destruct (Nat.ltb_spec 0 (refs (getth s t))); [|lia]. rewrite Hm in E. cbn [negb orb] in E.
  assert (Hg : lends_from s t && Nat.leb (refs (getth s t)) 1 = false).
  { destruct Hlf as [->|H2]; [reflexivity|]. destruct (Nat.leb_spec (refs (getth s t)) 1); [lia|apply andb_false_r]. }
  rewrite Hg in E. destruct (Mach.live s); discriminate.
Qed.
Lemma ok_free s t : Inv s -> t < length (ths s) -> started (getth s t) = true ->
  mustfree (getth s t) = true -> cle (pend (getth s t)) (clk (getth s t)) -> exists s', step s t AFree = Ok s'.
Proof.
  intros I Ht Hst Hm Hf. destruct (step s t AFree) as [s'|e|] eqn:E; [eauto|exfalso; eapply safe; eauto|exfalso].
  open_step E Ht Hst. apply cleb_spec in Hf. rewrite Hm, Hf in E. cbn [negb andb] in E.
  destruct (Mach.live s); cbn [negb] in E; [|discriminate]. destruct (_ && _); discriminate.
Qed.
Lemma ok_probe0 s t : Inv s -> t < length (ths s) -> started (getth s t) = true -> 0 < refs (getth s t) ->
  (lends_from s t = false \/ 2 <= refs (getth s t)) -> exists s' m, nth_error (msgs s) 0 = Some m /\ step s t (AProbe 0) = Ok s'.
Proof.
  intros I Ht Hst Hr Hlf.
  assert (Hl : Mach.live s = true).
  { destruct (Mach.live s) eqn:Hl; [reflexivity|]. destruct (J6 s I Hl) as (H0 & _).
    pose proof (total_ge (ths s) t). unfold getth in Hr. lia. }
  destruct (J1 s I Hl) as (Hne & _). destruct (msgs s) as [|m l] eqn:Hms; [contradiction|].
  destruct (step s t (AProbe 0)) as [s'|e|] eqn:E; [exists s', m; auto|exfalso; eapply safe; eauto|exfalso].
  open_step E Ht Hst. destruct (Nat.ltb_spec 0 (refs (getth s t))); [|lia]. cbn [negb orb] in E.
  assert (Hg : lends_from s t && Nat.leb (refs (getth s t)) 1 = false).
  { destruct Hlf as [->|H2]; [reflexivity|]. destruct (Nat.leb_spec (refs (getth s t)) 1); [lia|apply andb_false_r]. }
  rewrite Hg in E. rewrite Hl, Hms in E. cbn in E. discriminate.
Qed.
Lemma ok_fence s t : t < length (ths s) -> started (getth s t) = true -> exists s', step s t AFence = Ok s'.
Proof.
  intros Ht Hst. unfold step. destruct (Nat.ltb_spec t (length (ths s))); [|lia]. cbn [negb]. rewrite Hst. cbn [negb]. eauto.
Qed.

Lemma noborrowers_lends_from s t : (forall u, lend (getth s u) <> S t) -> lends_from s t = false.
Proof.
  intros H. unfold lends_from. destruct (existsb _ (ths s)) eqn:E; [|reflexivity].
  apply existsb_exists in E. destruct E as (x & Hin & Hx). apply Nat.eqb_eq in Hx.
  destruct (In_nth _ _ dth Hin) as (n & _ & En). specialize (H n). unfold getth in H. rewrite En in H. congruence.
Qed.
Lemma ok_readb s t : Inv s -> t < length (ths s) -> started (getth s t) = true -> lend (getth s t) <> 0 ->
  exists s', step s t AReadB = Ok s'.
Proof.
  intros I Ht Hst Hl. destruct (step s t AReadB) as [s'|e|] eqn:E; [eauto|exfalso; eapply safe; eauto|exfalso].
  open_step E Ht Hst. apply Nat.eqb_neq in Hl. rewrite Hl in E.
  destruct (Mach.live s); cbn [negb] in E; [|discriminate]. destruct (cleb (Wc s) _); discriminate.
Qed.
Lemma ok_cloneb s t : Inv s -> t < length (ths s) -> started (getth s t) = true -> lend (getth s t) <> 0 ->
  exists s', step s t ACloneB = Ok s'.
Proof.
  intros I Ht Hst Hl. destruct (step s t ACloneB) as [s'|e|] eqn:E; [eauto|exfalso; eapply safe; eauto|exfalso].
  open_step E Ht Hst. apply Nat.eqb_neq in Hl. rewrite Hl in E.
  destruct (Mach.live s); discriminate.
Qed.

Lemma ok_read_step h s t g : Inv s -> t < length (ths s) -> started (getth s t) = true -> agreeh h (getth s t) g ->
  (g_bor g b0 = true -> lend (getth s t) <> 0 \/ 0 < h) ->
  can_read g b0 -> exists s', read_step s t s'.
Proof.
  intros I Ht Hst (A1 & A2 & A3 & A4) Hbl [Hr|[He|[(Hf & Hfen)|Hb]]].
  - destruct (ok_read s t I Ht Hst) as (s' & E); [lia|]. exists s'. left. exact E.
  - assert (He' : excl (T s t) = true) by (unfold T; congruence).
    destruct (J5 s I t He') as (_ & Hr1 & _). unfold T in Hr1.
    destruct (ok_read s t I Ht Hst) as (s' & E); [lia|]. exists s'. left. exact E.
  - destruct (ok_readm s t I Ht Hst) as (s' & E); [congruence|auto|]. exists s'. right. left. exact E.
  - destruct (Hbl Hb) as [Hl|Hh].
    + destruct (ok_readb s t I Ht Hst Hl) as (s' & E). exists s'. right. right. exact E.
    + (* the lender itself, through the handle it has lent: it still holds it *)
      destruct (ok_read s t I Ht Hst) as (s' & E); [lia|]. exists s'. left. exact E.
Qed.

Definition is_event (c : cmd unit) : Prop := match c with Ret _ | Unreachable => False | _ => True end.

Theorem typed_progress cf t :
  WT cf -> t < length (tc cf) -> started (getth (ms cf) t) = true -> is_event (cur (gettc cf t)) ->
  exists s' c' g', estep t (ms cf) (cur (gettc cf t)) (gh (gettc cf t)) s' c' g'.
Proof.
  intros [W1 W2 W3 W4 W5] Ht Hst Hev. destruct (W3 t Ht Hst) as (Hag & Hok & Hbor).
  assert (Ht' : t < length (ths (ms cf))) by congruence.
  (* either nobody borrows from t, or t keeps the lent handle (one reference beyond its ghost) and is not exclusive *)
  assert (Hlf : lends_from (ms cf) t = false \/ (hid (lt (gettc cf t)) = 1 /\ excl (getth (ms cf) t) = false)).
  { destruct (lt (gettc cf t)) as [|u0 l0] eqn:E.
    - left. apply noborrowers_lends_from. intros u Hu. apply (proj1 (W5 u t)) in Hu. destruct Hu as (_ & Hin). rewrite E in Hin. exact Hin.
    - right. split; [reflexivity|].
      assert (Hl0 : lend (getth (ms cf) u0) = S t) by (apply (proj2 (W5 u0 t)); split; [exact Ht|rewrite E; left; reflexivity]).
      destruct (J10 _ W1 u0 t Hl0) as (_ & _ & _ & _ & He & _). exact He. }
  assert (Hbl : g_bor (gh (gettc cf t)) b0 = true -> lend (getth (ms cf) t) <> 0 \/ 0 < hid (lt (gettc cf t))).
  { intros Hb. destruct (Hbor Hb) as [Hl|[Hl|(Hf & _)]]; [left; exact Hl| |rewrite Hf in Hev; contradiction].
    right. destruct (lt (gettc cf t)); [contradiction|cbn; lia]. }
  set (s := ms cf) in *. set (g := gh (gettc cf t)) in *. set (h := hid (lt (gettc cf t))) in *.
  (* a thread whose ghost is exclusive does not lend *)
  assert (Hw : g_excl g b0 = true -> lends_from s t = false).
  { intros He. destruct Hlf as [Hlf|(_ & Hex)]; [exact Hlf|]. destruct Hag as (_ & A2 & _). congruence. }
  (* a thread that holds a handle of its own may release or probe: if it lends, the lent handle is a second reference *)
  assert (Hrp : 0 < g_refs g b0 -> lends_from s t = false \/ 2 <= refs (getth s t)).
  { intros Hr. destruct Hlf as [Hlf|(Hh & _)]; [left; exact Hlf|right]. destruct Hag as (A1 & _). lia. }
  revert Hev Hok. generalize (cur (gettc cf t)). intros c0 Hev Hok.
  destruct c0 as [r| |n k|b o n k|b n k|b c k|b k|b a o k|b o k|o k|p off n k|p off bs k|p x y n k];
    cbn [is_event okc] in *; try contradiction.
  - (* alloc *) do 3 eexists. apply S_alloc_none.
  - (* realloc *) destruct Hok as (He & _). destruct (Nat.eq_dec b b0) as [->|Hne].
    + destruct (ok_write s t W1 Ht' Hst) as (s' & E); [destruct Hag as (_ & A2 & _); congruence|exact (Hw He)|].
      exists s', (k true), g. apply S_realloc. exact E.
    + exists s, (k true), g. apply S_realloc_o. exact Hne.
  - (* dealloc *) destruct Hok as (Hf & Hfen & _). destruct (Nat.eq_dec b b0) as [->|Hne].
    + destruct Hag as (A1 & A2 & A3 & A4).
      destruct (ok_free s t W1 Ht' Hst) as (s' & E); [congruence|auto|]. do 3 eexists. apply S_dealloc. exact E.
    + do 3 eexists. apply S_dealloc_o. exact Hne.
  - (* hdr init *) destruct Hok as (He & _). destruct (Nat.eq_dec b b0) as [->|Hne].
    + destruct (ok_write s t W1 Ht' Hst) as (s' & E); [destruct Hag as (_ & A2 & _); congruence|exact (Hw He)|].
      do 3 eexists. apply S_hdrinit. exact E.
    + do 3 eexists. apply S_hdrinit_o. exact Hne.
  - (* hdr cap *) destruct Hok as (Hr & _). destruct (Nat.eq_dec b b0) as [->|Hne].
    + destruct (ok_read_step h s t g W1 Ht' Hst Hag Hbl Hr) as (s' & E). exists s', (k 0%N), g. apply S_hdrcap. exact E.
    + exists s, (k 0%N), g. apply S_hdrcap_o. exact Hne.
  - (* rmw *) destruct a.
    + destruct Hok as (Hr & _). destruct (Nat.eq_dec b b0) as [->|Hne].
      * destruct Hr as [Hr|Hb].
        -- destruct Hag as (A1 & _). destruct (ok_clone_step s t W1 Ht' Hst) as (s' & E); [lia|]. do 3 eexists. apply S_inc. exact E.
        -- destruct (Hbl Hb) as [Hl|Hh].
           ++ destruct (ok_cloneb s t W1 Ht' Hst Hl) as (s' & E). do 3 eexists. apply S_inc_b. exact E.
           ++ destruct Hag as (A1 & _). destruct (ok_clone_step s t W1 Ht' Hst) as (s' & E); [lia|]. do 3 eexists. apply S_inc. exact E.
      * exists s, (k 0%N), (g_inc g b). apply S_inc_o. exact Hne.
    + destruct Hok as (Hr & Hf & _). destruct (Nat.eq_dec b b0) as [->|Hne].
      * destruct (ok_release s t W1 Ht' Hst) as (s' & E);
          [destruct Hag as (A1 & _); lia|destruct Hag as (_ & _ & A3 & _); congruence|exact (Hrp Hr)|].
        do 3 eexists. apply S_dec. exact E.
      * exists s, (k 0%N), (g_dec g b 0%N). apply S_dec_o. exact Hne.
  - (* load *) destruct Hok as (Hr & _). destruct (Nat.eq_dec b b0) as [->|Hne].
    + destruct (ok_probe0 s t W1 Ht' Hst) as (s' & m & Hm & E); [destruct Hag as (A1 & _); lia|exact (Hrp Hr)|].
      do 3 eexists. eapply S_load; eauto.
    + exists s, (k 0%N), (g_load g b 0%N). apply S_load_o. exact Hne.
  - (* fence *) destruct (acq o) eqn:Ha.
    + destruct (ok_fence s t Ht' Hst) as (s' & E). do 3 eexists. apply S_fence_acq; eauto.
    + do 3 eexists. apply S_fence_no. exact Ha.
  - (* read *) destruct p as [b|sid].
    + destruct Hok as (Hr & _). destruct (Nat.eq_dec b b0) as [->|Hne].
      * destruct (ok_read_step h s t g W1 Ht' Hst Hag Hbl Hr) as (s' & E). exists s', (k []), g. apply S_read. exact E.
      * exists s, (k []), g. apply S_read_o. exact Hne.
    + exists s, (k []), g. apply S_read_static.
  - (* write *) destruct p as [b|sid]; [|contradiction]. destruct Hok as (He & _). destruct (Nat.eq_dec b b0) as [->|Hne].
    + destruct (ok_write s t W1 Ht' Hst) as (s' & E); [destruct Hag as (_ & A2 & _); congruence|exact (Hw He)|].
      do 3 eexists. apply S_write. exact E.
    + do 3 eexists. apply S_write_o. exact Hne.
  - (* move *) destruct p as [b|sid]; [|contradiction]. destruct Hok as (He & _). destruct (Nat.eq_dec b b0) as [->|Hne].
    + destruct (ok_write s t W1 Ht' Hst) as (s' & E); [destruct Hag as (_ & A2 & _); congruence|exact (Hw He)|].
      do 3 eexists. apply S_move. exact E.
    + do 3 eexists. apply S_move_o. exact Hne.
Qed.

(* ---------- the end: when every started thread has run to completion the buffer has been released ---------- *)
Lemma total_zero l : (forall t, refs (nth t l dth) = 0) -> total l = 0.
Proof.
  induction l as [|x l IH]; intros H; [reflexivity|]. rewrite total_cons.
  pose proof (H 0) as H0. cbn [nth] in H0. rewrite H0. cbn. apply IH. intros t. exact (H (S t)).
Qed.

Theorem all_finished_released cf :
  WT cf -> (forall t, t < length (tc cf) -> started (getth (ms cf) t) = true -> finished (gettc cf t)) ->
  Mach.live (ms cf) = false.
Proof.
  intros [W1 W2 W3 W4 W5] Hfin.
  assert (Hall : forall t, refs (getth (ms cf) t) = 0 /\ mustfree (getth (ms cf) t) = false).
  { intros t. destruct (started (getth (ms cf) t)) eqn:Hst.
    - destruct (Nat.lt_ge_cases t (length (tc cf))) as [Ht|Ht].
      + destruct (W3 t Ht Hst) as ((A1 & _ & A3 & _) & Hok & _). destruct (Hfin t Ht Hst) as (Hc & Hr).
        rewrite Hc, Hr in Hok. cbn [okc prog_ok] in Hok. destruct Hok as (L0 & R0 & F0). rewrite L0 in A1. cbn [hid] in A1. split; [lia|congruence].
      + unfold getth in Hst. rewrite nth_overflow in Hst by lia. discriminate.
    - destruct (J8 _ W1 t Hst) as (R0 & M0 & _). auto. }
  destruct (Mach.live (ms cf)) eqn:Hl; [exfalso|reflexivity].
  assert (H0 : total (ths (ms cf)) = 0) by (apply total_zero; intros t; apply Hall).
  destruct (J9 _ W1 Hl H0) as (t & Hm). destruct (Hall t) as (_ & Hm'). unfold T in Hm. congruence.
Qed.
(* ---------- the link to the thread-local (view) semantics of Cmd.run ----------
   Every value an atomic operation on the shared buffer returns to a typed thread — the head of the modification order
   for its RMWs, whichever message its possibly stale acquire load reads — is that thread's own number of references
   plus a non-negative rest.  This is the shape [count x + ext_now m] under which Main.execs_sound_from proves that the
   thread's operations refine Spec for EVERY sequence of rests. *)
Definition own_plus_rest (g : ghost) (c c' : cmd unit) : Prop :=
  match c with
  | Load b o k => b = b0 -> exists v, c' = k v /\ (N.of_nat (g_refs g b0) <= v)%N
  | Rmw b add o k => b = b0 -> exists v, c' = k v /\ (N.of_nat (g_refs g b0) <= v)%N
  | _ => True
  end.
Lemma estep_value_ge_own h t s c g s' c' g' :
  Inv s -> agreeh h (getth s t) g -> estep t s c g s' c' g' -> own_plus_rest g c c'.
Proof.
  intros I (A1 & _) Hstep. destruct Hstep; cbn [own_plus_rest]; auto; try (intros E; congruence).
  - intros _. eexists. split; [reflexivity|].
    pose proof (rmw_value_ge_refs s t AClone s' I (or_introl eq_refl) H). lia.
  - intros _. eexists. split; [reflexivity|].
    pose proof (rmw_value_ge_refs s t ACloneB s' I (or_intror (or_introl eq_refl)) H). lia.
  - intros _. eexists. split; [reflexivity|].
    pose proof (rmw_value_ge_refs s t ARelease s' I (or_intror (or_intror eq_refl)) H). lia.
  - intros _. eexists. split; [reflexivity|].
    pose proof (probe_value_ge_refs s t p m s' I H0 H). lia.
Qed.
Theorem typed_values_ge_own cf0 cf t s' c' g' :
  WT cf0 -> csteps cf0 cf -> t < length (tc cf) -> started (getth (ms cf) t) = true ->
  estep t (ms cf) (cur (gettc cf t)) (gh (gettc cf t)) s' c' g' ->
  own_plus_rest (gh (gettc cf t)) (cur (gettc cf t)) c'.
Proof.
  intros H0 Hs Ht Hst He. pose proof (typed_steps cf0 cf H0 Hs) as HW.
  destruct (wt_started cf HW t Ht Hst) as (Hag & _).
  eapply estep_value_ge_own; [exact (wt_inv cf HW)|exact Hag|exact He].
Qed.

(* ---------- contents ----------
   A typed thread that writes, moves, re-initialises or reallocates the shared buffer does so alone: in every reachable
   configuration where such an event of thread t can happen, no other thread holds a reference, reads through a loan or
   has the duty to free — so (conc/Contents.v) the bytes any thread reads back are those its own writes put there. *)
Definition writes_b0 (c : cmd unit) : Prop :=
  match c with
  | Write (PHeap b) _ _ _ | Move (PHeap b) _ _ _ _ | Realloc b _ _ _ | HdrInit b _ _ => b = b0
  | _ => False
  end.
Lemma estep_write_is_machine_write t s c g s' c' g' :
  estep t s c g s' c' g' -> writes_b0 c -> step s t AWrite = Ok s'.
Proof. intros H W. destruct H; cbn [writes_b0] in W; try contradiction; try congruence; assumption. Qed.
Theorem typed_write_is_sole cf0 cf t s' c' g' :
  WT cf0 -> csteps cf0 cf ->
  estep t (ms cf) (cur (gettc cf t)) (gh (gettc cf t)) s' c' g' -> writes_b0 (cur (gettc cf t)) ->
  forall u, u <> t -> ~ Contents.holds (ms cf) u.
Proof.
  intros H0 Hs He Hw u Hne. pose proof (typed_steps cf0 cf H0 Hs) as HW.
  exact (write_excludes_all (ms cf) t s' (wt_inv cf HW) (estep_write_is_machine_write _ _ _ _ _ _ _ He Hw) u Hne).
Qed.

(* ---------- every execution of a program is a schedule of the machine ----------
   Each step of the program semantics is silent for the machine or is exactly one of its actions; so every execution
   projects to a machine schedule, and everything proved of ALL schedules (conc/Top.v, conc/Values.v, conc/Contents.v) holds
   of the executions of every program, typed or not. *)
Lemma estep_mach t s c g s' c' g' : estep t s c g s' c' g' -> s' = s \/ exists a, step s t a = Ok s'.
Proof.
  intros H. destruct H; try (left; reflexivity); try (right; eexists; eassumption);
    match goal with Hr : read_step _ _ _ |- _ => destruct Hr as [Hr|[Hr|Hr]]; right; eexists; exact Hr end.
Qed.
Lemma cstep_mach cf cf' : cstep cf cf' -> ms cf' = ms cf \/ exists t a, step (ms cf) t a = Ok (ms cf').
Proof.
  intros H. destruct H; cbn [ms]; try (left; reflexivity); try (right; eexists _, _; eassumption).
  match goal with He : estep _ _ _ _ _ _ _ |- _ => destruct (estep_mach _ _ _ _ _ _ _ He) as [->|(a & Ha)] end;
    [left; reflexivity|right; eexists _, _; exact Ha].
Qed.
Theorem csteps_schedule cf cf' : csteps cf cf' -> exists sched, Mach.run (ms cf) sched = Ok (ms cf').
Proof.
  intros H. induction H as [cf|cf cf1 cf2 H1 _ (sched & IH)]; [exists []; reflexivity|].
  destruct (cstep_mach _ _ H1) as [E|(t & a & E)].
  - exists sched. rewrite <- E. exact IH.
  - exists ((t, a) :: sched). cbn [Mach.run]. rewrite E. exact IH.
Qed.

(* ... in particular of a typed program: along its schedule, whatever a thread that can reach the buffer throughout
   finds written, reallocated or released, it did itself *)
Theorem typed_execution_contents cf0 cf :
  WT cf0 -> csteps cf0 cf ->
  exists sched, Mach.run (ms cf0) sched = Ok (ms cf)
    /\ forall t, held_through (ms cf0) t sched -> Forall (fun ua => (snd ua = AWrite \/ snd ua = AFree) -> fst ua = t) sched.
Proof.
  intros W Hs. destruct (csteps_schedule cf0 cf Hs) as (sched & Hrun). exists sched. split; [exact Hrun|].
  intros t Hh. exact (writes_while_held_are_own t sched (ms cf0) (ms cf) (wt_inv cf0 W) Hrun Hh).
Qed.

End Compose.
