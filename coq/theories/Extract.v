(* Extract.v — extraction of the executable model (ExtrOcamlBasic only; numbers stay inductive). *)
From LS Require Import Base Utf8 Cmd Impl Exec GrowSim Lossy.
From Coq Require Import ExtrOcamlBasic.
Extraction Language OCaml.
Set Extraction Output Directory ".".
Extraction "model_ex.ml" exec world0 orc_of text_of cap_of rc_of live_blocks drop_all log wmem pool
  utf8_valid is_char_boundary encode_cp decode_cp gstep lossy utf16_decode.
