(* Base.v — list helpers and usize arithmetic with the 2^64 wrap written out. *)
From Coq Require Export List NArith Lia Bool.
Export ListNotations.
Open Scope N_scope.
Arguments N.add : simpl never. Arguments N.sub : simpl never. Arguments N.mul : simpl never.
Arguments N.div : simpl never. Arguments N.modulo : simpl never. Arguments N.leb : simpl never.
Arguments N.ltb : simpl never. Arguments N.eqb : simpl never. Arguments N.min : simpl never.
Arguments N.max : simpl never. Arguments N.pow : simpl never. Arguments N.of_nat : simpl never.
Arguments N.to_nat : simpl never.

(* ---------- usize ---------- *)
Definition USIZE_MAX : N := 18446744073709551615.          (* 2^64 - 1 *)
Definition ISIZE_MAX : N := 9223372036854775807.           (* 2^63 - 1 *)
Definition checked_add (a b : N) : option N := if a + b <=? USIZE_MAX then Some (a + b) else None.
Definition sat_add (a b : N) : N := N.min (a + b) USIZE_MAX.
Definition sat_mul (a b : N) : N := N.min (a * b) USIZE_MAX.
Definition wrapping_add (a b : N) : N := (a + b) mod (USIZE_MAX + 1).
Definition wrapping_sub (a b : N) : N := (a + (USIZE_MAX + 1) - b mod (USIZE_MAX + 1)) mod (USIZE_MAX + 1).

(* ---------- lists ---------- *)
Definition len {A} (l : list A) : N := N.of_nat (length l).

Fixpoint upd {A} (l : list A) (n : nat) (x : A) : list A :=
  match l, n with
  | [], _ => []
  | _ :: l', O => x :: l'
  | y :: l', S n' => y :: upd l' n' x
  end.

(* bytes [off, off + length bs) of d replaced by bs; length preserved when it fits *)
Definition write_range {A} (d : list A) (off : nat) (bs : list A) : list A :=
  firstn off d ++ bs ++ skipn (off + length bs) d.
Definition slice {A} (d : list A) (off n : nat) : list A := firstn n (skipn off d).
(* memmove *)
Definition move_range {A} (d : list A) (src dst n : nat) : list A := write_range d dst (slice d src n).

Definition nthN (l : list N) (i : nat) : N := nth i l 0.
