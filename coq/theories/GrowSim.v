(* GrowSim.v — the (length, capacity, allocator requests, bytes copied) bookkeeping of appends to an exclusively owned
   string.  Extracted and run against the real crate's push loops by the C12 check; PushLoop.v proves that the modelled
   crate follows it and that it costs O(log n) requests and O(n) copying. *)
From Coq Require Import NArith List.
From LS Require Import Base Impl.
From LSGen Require Import GenSrc.
Import ListNotations.
Open Scope N_scope.

Record gst := { gl : N; gc : N; gk : nat; gcp : N }.
Definition gstep (st : gst) (a : N) : gst :=
  if gl st + a <=? gc st then {| gl := gl st + a; gc := gc st; gk := gk st; gcp := gcp st |}
  else {| gl := gl st + a; gc := amortized_growth (gl st) a; gk := S (gk st); gcp := gcp st + gl st |}.
Definition gsim (st : gst) (l : list N) : gst := fold_left gstep l st.

