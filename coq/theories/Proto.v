(* Proto.v — thread-local typing of the command trees against the reference-count protocol of conc/Mach.v.
   A thread's ghost state says, per buffer, how many references it holds, whether it has observed the count 1
   while holding one (exclusive) and whether its own decrement took the count to zero (must free).  [okc c g Q]:
   whatever values the shared memory returns (demonic), every event of [c] has the ghost precondition that
   Mach.step demands of the corresponding action (read: holds a reference; write / realloc / header write:
   exclusive; decrement: holds a reference; dealloc: must-free), and [Q] holds of the result and final ghost. *)
From Coq Require Import Lia Arith.
From LS Require Import Base Utf8 Cmd Impl.
From LSGen Require Import GenSrc.
Open Scope N_scope.

Record ghost := { g_refs : bufid -> nat; g_excl : bufid -> bool; g_free : bufid -> bool;
                  g_fen : bool (* an acquire fence has been executed since this thread's last RMW *);
                  g_bor : bufid -> bool (* the thread reads b through a &handle lent to it by another thread *) }.
Definition acq (o : ord) : bool := match o with Acquire | AcqRel | SeqCst => true | _ => false end.
Definition rel (o : ord) : bool := match o with Release | AcqRel | SeqCst => true | _ => false end.
Definition setf {A} (f : bufid -> A) (b : bufid) (x : A) : bufid -> A := fun b' => if Nat.eqb b' b then x else f b'.

Definition can_read (g : ghost) (b : bufid) : Prop :=
  (0 < g_refs g b)%nat \/ g_excl g b = true \/ (g_free g b = true /\ g_fen g = true) \/ g_bor g b = true.

Fixpoint okc {R} (c : cmd R) (g : ghost) (Q : R -> ghost -> Prop) : Prop :=
  match c with
  | Ret r => Q r g
  | Unreachable => True          (* excluded by the sequential theorem (C03_no_ub) *)
  | Alloc _ k =>
      okc (k None) g Q
      /\ forall b, g_refs g b = 0%nat -> g_excl g b = false -> g_free g b = false ->
           okc (k (Some b)) {| g_refs := setf (g_refs g) b 1%nat; g_excl := setf (g_excl g) b true; g_free := g_free g; g_fen := g_fen g; g_bor := g_bor g |} Q
  | Realloc b _ _ k => g_excl g b = true /\ forall ok, okc (k ok) g Q
  | Dealloc b _ k => g_free g b = true /\ g_fen g = true
                     /\ okc k {| g_refs := g_refs g; g_excl := g_excl g; g_free := setf (g_free g) b false; g_fen := g_fen g; g_bor := g_bor g |} Q
  | HdrInit b _ k => g_excl g b = true /\ okc k g Q
  | HdrCap b k => can_read g b /\ forall v, okc (k v) g Q
  | Rmw b true _ k =>
      ((0 < g_refs g b)%nat \/ g_bor g b = true)      (* clone: through an own handle, or through a borrowed one *)
      /\ forall v, okc (k v) {| g_refs := setf (g_refs g) b (S (g_refs g b)); g_excl := setf (g_excl g) b false; g_free := g_free g; g_fen := false; g_bor := g_bor g |} Q
  | Rmw b false o k =>
      (0 < g_refs g b)%nat /\ g_free g b = false /\ rel o = true
      /\ forall v, okc (k v) {| g_refs := setf (g_refs g) b (g_refs g b - 1)%nat; g_excl := setf (g_excl g) b false;
                                g_free := setf (g_free g) b (v =? 1); g_fen := false; g_bor := g_bor g |} Q
  | Load b o k =>
      (0 < g_refs g b)%nat /\ acq o = true
      /\ forall v, okc (k v) {| g_refs := g_refs g; g_excl := setf (g_excl g) b (g_excl g b || (v =? 1)); g_free := g_free g; g_fen := g_fen g; g_bor := g_bor g |} Q
  | Fence o k => okc k {| g_refs := g_refs g; g_excl := g_excl g; g_free := g_free g; g_fen := g_fen g || acq o; g_bor := g_bor g |} Q
  | Read (PHeap b) _ _ k => can_read g b /\ forall bs, okc (k bs) g Q
  | Read (PStatic _) _ _ k => forall bs, okc (k bs) g Q
  | Write (PHeap b) _ _ k => g_excl g b = true /\ okc k g Q
  | Write (PStatic _) _ _ _ => False
  | Move (PHeap b) _ _ _ k => g_excl g b = true /\ okc k g Q
  | Move (PStatic _) _ _ _ _ => False
  end.

Lemma okc_bind {A B} (c : cmd A) (f : A -> cmd B) g (Q : B -> ghost -> Prop) :
  okc c g (fun a g' => okc (f a) g' Q) -> okc (bind c f) g Q.
Proof.
  revert g; induction c as [r| |n k IH|b o n k IH|b n k IH|b c k IH|b k IH|b a o k IH|b o k IH|o k IH|p off n k IH|p off bs k IH|p s d n k IH];
    intros g H; cbn [bind okc] in *; auto.
  - destruct H as (H1 & H2). split; [apply IH; exact H1|]. intros b Hb1 Hb2 Hb3. apply IH. apply H2; auto.
  - destruct H as (H1 & H2). split; [exact H1|]. intros ok. apply IH. apply H2.
  - destruct H as (H1 & H2 & H3). split; [exact H1|]. split; [exact H2|]. apply IH. exact H3.
  - destruct H as (H1 & H2). split; [exact H1|]. apply IH. exact H2.
  - destruct H as (H1 & H2). split; [exact H1|]. intros v. apply IH. apply H2.
  - destruct a.
    + destruct H as (H1 & H2). split; [exact H1|]. intros v. apply IH. apply H2.
    + destruct H as (H1 & H2 & H3 & H4). split; [exact H1|]. split; [exact H2|]. split; [exact H3|]. intros v. apply IH. apply H4.
  - destruct H as (H1 & H2 & H3). split; [exact H1|]. split; [exact H2|]. intros v. apply IH. apply H3.
  - destruct p as [b|s].
    + destruct H as (H1 & H2). split; [exact H1|]. intros bs. apply IH. apply H2.
    + intros bs. apply IH. apply H.
  - destruct p as [b|s]; [|exact H]. destruct H as (H1 & H2). split; [exact H1|]. apply IH. exact H2.
  - destruct p as [b|s0]; [|exact H]. destruct H as (H1 & H2). split; [exact H1|]. apply IH. exact H2.
Qed.
Lemma okc_mono {R} (c : cmd R) g (Q Q' : R -> ghost -> Prop) :
  okc c g Q -> (forall r g', Q r g' -> Q' r g') -> okc c g Q'.
Proof.
  revert g; induction c as [r| |n k IH|b o n k IH|b n k IH|b c k IH|b k IH|b a o k IH|b o k IH|o k IH|p off n k IH|p off bs k IH|p s d n k IH];
    intros g H HQ; cbn [okc] in *; auto.
  - destruct H as (H1 & H2). split; [eapply IH; eauto|]. intros b Hb1 Hb2 Hb3. eapply IH; eauto.
  - destruct H as (H1 & H2). split; [exact H1|]. intros ok. eapply IH; eauto.
  - destruct H as (H1 & H2 & H3). split; [exact H1|]. split; [exact H2|]. eapply IH; eauto.
  - destruct H as (H1 & H2). split; [exact H1|]. eapply IH; eauto.
  - destruct H as (H1 & H2). split; [exact H1|]. intros v. eapply IH; eauto.
  - destruct a.
    + destruct H as (H1 & H2). split; [exact H1|]. intros v. eapply IH; eauto.
    + destruct H as (H1 & H2 & H3 & H4). split; [exact H1|]. split; [exact H2|]. split; [exact H3|]. intros v. eapply IH; eauto.
  - destruct H as (H1 & H2 & H3). split; [exact H1|]. split; [exact H2|]. intros v. eapply IH; eauto.
  - destruct p as [b|s].
    + destruct H as (H1 & H2). split; [exact H1|]. intros bs. eapply IH; eauto.
    + intros bs. eapply IH; eauto.
  - destruct p as [b|s]; [|exact H]. destruct H as (H1 & H2). split; [exact H1|]. eapply IH; eauto.
  - destruct p as [b|s0]; [|exact H]. destruct H as (H1 & H2). split; [exact H1|]. eapply IH; eauto.
Qed.

Ltac gs := cbn [g_refs g_excl g_free g_fen g_bor]; unfold setf; rewrite ?Nat.eqb_refl.

(* the thread holds a reference for handle r *)
Definition holds (g : ghost) (r : repr) : Prop :=
  match r with Heap b _ => (0 < g_refs g b)%nat /\ g_free g b = false | _ => True end.
(* the thread owes nothing: no pending dealloc *)
Definition settled (g : ghost) : Prop := forall b, g_free g b = false.

(* ---- clone: one relaxed increment, no other access ---- *)
Lemma ok_clone r g : holds g r -> okc (make_shallow_clone r) g (fun r' g' => r' = r /\ holds g' r).
Proof.
  destruct r as [bs|b l|s l]; cbn [make_shallow_clone holds]; intros H; try (cbn [okc]; auto).
  destruct H as (H1 & H2). apply okc_bind. cbn [rmw okc]. split; [left; exact H1|]. intros v. cbn [okc]. split; [reflexivity|].
  cbn [holds]. gs. split; [lia|exact H2].
Qed.

(* ---- replace_inner (drop / reassign): one release decrement; the thread that read 1 fences, reads the capacity
        and frees; afterwards it holds one reference less to that buffer and owes nothing ---- *)
Definition same_at (g g' : ghost) (b : bufid) : Prop :=
  g_refs g' b = g_refs g b /\ g_excl g' b = g_excl g b /\ g_free g' b = g_free g b.
Lemma ok_replace_inner r other g :
  holds g r -> settled g ->
  okc (replace_inner r other) g (fun r' g' => r' = other /\ settled g'
        /\ match r with
           | Heap b _ => g_refs g' b = (g_refs g b - 1)%nat /\ forall b', b' <> b -> same_at g g' b'
           | _ => g' = g
           end).
Proof.
  intros Hh Hs. destruct r as [bs|b l|s l]; cbn [replace_inner holds] in *; try (cbn [okc]; auto).
  destruct Hh as (H1 & H2). apply okc_bind. cbn [rmw okc]. split; [exact H1|]. split; [exact H2|].
  split; [reflexivity (* the decrement is at least Release: ord_replace_inner_0, regenerated from the source *)|].
  intros v. cbn [okc].
  destruct (N.eqb_spec v 1) as [->|Hne].
  - apply okc_bind. cbn [fence okc]. apply okc_bind. unfold heap_dealloc. apply okc_bind. cbn [hdr_cap okc].
    (* the fence is at least Acquire: ord_replace_inner_1, regenerated from the source *)
    split; [right; right; left; gs; split; reflexivity|]. intros c. cbn [okc].
    destruct (layout_from_capacity c) as [sz|]; [|exact I]. cbn [dealloc okc]. gs.
    split; [reflexivity|]. split; [reflexivity|]. split; [reflexivity|]. split; [|split].
    + intros b'. gs. destruct (Nat.eqb b' b); [reflexivity|apply Hs].
    + gs. reflexivity.
    + intros b' Hne. unfold same_at. gs. apply Nat.eqb_neq in Hne. rewrite !Hne. auto.
  - split; [reflexivity|]. split; [|split].
    + intros b'. gs. destruct (Nat.eqb b' b); [reflexivity|apply Hs].
    + gs. reflexivity.
    + intros b' Hne'. unfold same_at. gs. apply Nat.eqb_neq in Hne'. rewrite !Hne'. auto.
Qed.

(* ---- reserve: the uniqueness test is an acquire load made while holding a reference; the buffer is written,
        reallocated or its header rewritten only after that load returned 1; on the shared path the old buffer is only
        read (while still holding the reference) and the reference is given up after the copy exists ---- *)
Definition holds_excl (g : ghost) (r : repr) : Prop :=
  match r with Heap b _ => (0 < g_refs g b)%nat /\ g_free g b = false /\ g_excl g b = true | Static _ _ => False | Inline _ => True end.

(* reference accounting: an operation changes the thread's count of a buffer exactly by the change of its handle *)
Definition nm (r : repr) (b : bufid) : nat := match r with Heap b' _ => if Nat.eqb b' b then 1%nat else 0%nat | _ => 0%nat end.
Definition cons (g : ghost) (r : repr) (g' : ghost) (r' : repr) : Prop :=
  forall b, (g_refs g' b + nm r b = g_refs g b + nm r' b)%nat.
Lemma cons_same g r g' : (forall b, g_refs g' b = g_refs g b) -> cons g r g' r.
Proof. intros H b. rewrite H. reflexivity. Qed.
(* what replace_inner's postcondition says about the counts: r's reference is gone, nothing else moved *)
Lemma released_refs r g g' :
  holds g r ->
  match r with
  | Heap b _ => g_refs g' b = (g_refs g b - 1)%nat /\ forall b', b' <> b -> same_at g g' b'
  | _ => g' = g
  end -> forall x, (g_refs g' x + nm r x = g_refs g x)%nat.
Proof.
  destruct r as [d|b l|s l]; cbn [holds nm]; intros Hh Hm x; try (subst g'; lia).
  destruct Hh as (Hr & _). destruct Hm as (E & Same). destruct (Nat.eqb_spec b x) as [->|Hne]; [lia|].
  destruct (Same x (not_eq_sym Hne)) as (E1 & _). lia.
Qed.
Ltac cons_tac := let x := fresh "x" in intros x; cbn [nm g_refs]; unfold setf;
  repeat match goal with |- context [Nat.eqb ?a ?b] => destruct (Nat.eqb_spec a b); subst end; try lia; try congruence.

Lemma ok_allocate_ptr c g (Q : option bufid -> ghost -> Prop) :
  Q None g ->
  (forall b, g_refs g b = 0%nat -> g_excl g b = false -> g_free g b = false ->
     Q (Some b) {| g_refs := setf (g_refs g) b 1%nat; g_excl := setf (g_excl g) b true; g_free := g_free g; g_fen := g_fen g; g_bor := g_bor g |}) ->
  okc (allocate_ptr c) g Q.
Proof.
  intros Hn Hs. unfold allocate_ptr. destruct (layout_from_capacity c) as [sz|]; [|exact Hn].
  apply okc_bind. cbn [alloc okc]. split; [exact Hn|]. intros b H1 H2 H3. apply okc_bind. cbn [hdr_init okc]. gs. split; [reflexivity|]. apply Hs; auto.
Qed.

(* a fresh private buffer holding a copy: the shape shared by HeapBuffer::new / with_additional *)
Lemma ok_alloc_copy c t l g (Q : option repr -> ghost -> Prop) :
  Q None g ->
  (forall b, g_refs g b = 0%nat -> g_excl g b = false -> g_free g b = false ->
     Q (Some (Heap b l)) {| g_refs := setf (g_refs g) b 1%nat; g_excl := setf (g_excl g) b true; g_free := g_free g; g_fen := g_fen g; g_bor := g_bor g |}) ->
  okc (ob <- allocate_ptr c ;; match ob with None => Ret None | Some b => write (PHeap b) 0 t ;;; Ret (Some (Heap b l)) end) g Q.
Proof.
  intros Hn Hs. apply okc_bind. apply ok_allocate_ptr; [exact Hn|]. intros b H1 H2 H3. apply okc_bind.
  cbn [write okc]. gs. split; [reflexivity|]. apply Hs; auto.
Qed.
Lemma ok_heap_with_additional t add g (Q : option repr -> ghost -> Prop) :
  Q None g ->
  (forall b l, g_refs g b = 0%nat -> g_excl g b = false -> g_free g b = false ->
     Q (Some (Heap b l)) {| g_refs := setf (g_refs g) b 1%nat; g_excl := setf (g_excl g) b true; g_free := g_free g; g_fen := g_fen g; g_bor := g_bor g |}) ->
  okc (heap_with_additional t add) g Q.
Proof.
  intros Hn Hs. unfold heap_with_additional. destruct (text_len_new (len t)) as [l|]; [|exact Hn].
  destruct (capacity_new _) as [c|]; [|exact Hn]. apply ok_alloc_copy; [exact Hn|]. intros b. apply Hs.
Qed.
Lemma ok_heap_new t g (Q : option repr -> ghost -> Prop) :
  Q None g ->
  (forall b l, g_refs g b = 0%nat -> g_excl g b = false -> g_free g b = false ->
     Q (Some (Heap b l)) {| g_refs := setf (g_refs g) b 1%nat; g_excl := setf (g_excl g) b true; g_free := g_free g; g_fen := g_fen g; g_bor := g_bor g |}) ->
  okc (heap_new t) g Q.
Proof.
  intros Hn Hs. unfold heap_new. destruct (text_len_new (len t)) as [l|]; [|exact Hn].
  destruct (capacity_new _) as [c|]; [|exact Hn]. apply ok_alloc_copy; [exact Hn|]. intros b. apply Hs.
Qed.

Lemma ok_heap_realloc b nc g (Q : bool -> ghost -> Prop) :
  g_excl g b = true -> (forall ok, Q ok g) -> okc (heap_realloc b nc) g Q.
Proof.
  intros He HQ. unfold heap_realloc. destruct (capacity_new nc) as [c|]; [|apply HQ].
  apply okc_bind. cbn [hdr_cap okc]. split; [right; left; exact He|]. intros cur. cbn [okc].
  destruct (layout_from_capacity cur) as [sz|]; [|exact I]. apply okc_bind. cbn [realloc okc]. split; [exact He|].
  intros ok. cbn [okc]. destruct ok; [|apply HQ]. apply okc_bind. cbn [hdr_init okc]. split; [exact He|apply HQ].
Qed.

(* result of a make-unique step: the thread holds (exclusively, for a heap result) the handle it ends with, holds
   nothing it did not hold before except a fresh buffer, and owes nothing *)
Definition unique_post (ok : bool) (r' : repr) (g' : ghost) : Prop :=
  settled g' /\ holds g' r' /\ (ok = true -> holds_excl g' r' \/ is_static r' = true).

Lemma ok_reserve r add g :
  holds g r -> settled g ->
  okc (reserve r add) g (fun p g' => settled g' /\ holds g' (fst p) /\ (snd p = true -> holds_excl g' (fst p))
                                     /\ cons g r g' (fst p)).
Proof.
  intros Hh Hs. unfold reserve. destruct (checked_add (repr_len r) add) as [needed|].
  2:{ cbn [okc fst snd]. split; [exact Hs|]. split; [exact Hh|]. split; [discriminate|apply cons_same; reflexivity]. }
  destruct r as [bs|b l|s l].
  - (* inline *)
    destruct (cond_reserve_inline_grow needed).
    + apply okc_bind. apply ok_heap_with_additional.
      * cbn [okc fst snd]. split; [exact Hs|]. split; [exact I|]. split; [discriminate|apply cons_same; reflexivity].
      * intros b' l' H1 H2 H3. cbn [okc fst snd holds holds_excl]. gs.
        split; [exact Hs|]. split; [split; [lia|exact H3]|]. split; [intros _; split; [lia|]; split; [exact H3|reflexivity]|].
        cons_tac.
    + cbn [okc fst snd holds holds_excl]. split; [exact Hs|]. split; [exact I|]. split; [auto|apply cons_same; reflexivity].
  - (* heap *)
    destruct Hh as (H1 & H2). cbn [repr_len].
    apply okc_bind. unfold heap_is_unique. apply okc_bind. cbn [load okc]. split; [exact H1|]. split; [reflexivity (* acquire: ord_is_unique_0 *)|]. intros v. cbn [okc].
    destruct (N.eqb_spec v 1) as [->|Hne].
    + (* observed 1 while holding a reference: exclusive *)
      set (g1 := {| g_refs := g_refs g; g_excl := setf (g_excl g) b (g_excl g b || true); g_free := g_free g; g_fen := g_fen g; g_bor := g_bor g |}).
      assert (He1 : g_excl g1 b = true) by (unfold g1; gs; apply orb_true_r).
      apply okc_bind. cbn [hdr_cap okc]. split; [left; exact H1|]. intros c. cbn [okc].
      destruct (cond_reserve_enough c needed).
      * cbn [okc fst snd holds holds_excl]. split; [exact Hs|]. split; [split; [exact H1|exact H2]|].
        split; [intros _; auto|apply cons_same; reflexivity].
      * apply okc_bind. apply ok_heap_realloc; [exact He1|]. intros ok. cbn [okc fst snd holds holds_excl].
        split; [exact Hs|]. split; [split; [exact H1|exact H2]|]. split; [intros _; auto|apply cons_same; reflexivity].
    + (* shared: read while still holding the reference, copy, then release *)
      set (g1 := {| g_refs := g_refs g; g_excl := setf (g_excl g) b (g_excl g b || false); g_free := g_free g; g_fen := g_fen g; g_bor := g_bor g |}).
      apply okc_bind. cbn [read okc]. split; [left; exact H1|]. intros t. cbn [okc].
      apply okc_bind. apply ok_heap_with_additional.
      * cbn [okc fst snd holds]. split; [exact Hs|]. split; [split; [exact H1|exact H2]|].
        split; [discriminate|apply cons_same; reflexivity].
      * intros b' l' N1 N2 N3.
        set (g2 := {| g_refs := setf (g_refs g1) b' 1%nat; g_excl := setf (g_excl g1) b' true; g_free := g_free g1; g_fen := g_fen g1; g_bor := g_bor g1 |}).
        assert (Hbb : b' <> b) by (intros ->; cbn [g1 g_refs] in N1; lia).
        assert (Hh2 : holds g2 (Heap b l)).
        { cbn [holds]. unfold g2, g1. gs. apply Nat.eqb_neq in Hbb. rewrite Nat.eqb_sym, Hbb. auto. }
        apply okc_bind. eapply okc_mono.
        -- apply (ok_replace_inner (Heap b l) (Heap b' l') g2); [exact Hh2|exact Hs].
        -- intros r' g' (-> & S' & Hm). pose proof (released_refs _ _ _ Hh2 Hm) as Hrel. destruct Hm as (_ & Same).
           cbn [okc fst snd holds holds_excl].
           destruct (Same b' Hbb) as (E1 & E2 & E3). unfold g2, g1 in E1, E2, E3. revert E1 E2 E3. gs. intros E1 E2 E3.
           split; [exact S'|]. split; [split; [lia|apply S']|]. split; [intros _; split; [lia|]; split; [apply S'|exact E2]|].
           intros x. specialize (Hrel x). unfold g2, g1 in Hrel. cbn [g_refs nm] in Hrel |- *. unfold setf in Hrel.
           cbn [g1 g_refs] in N1.
           repeat match goal with |- context [Nat.eqb ?a ?c] => destruct (Nat.eqb_spec a c); subst end;
           repeat match goal with H : context [Nat.eqb ?a ?c] |- _ => destruct (Nat.eqb_spec a c); subst end; try lia; try congruence.
  - (* static *)
    apply okc_bind. cbn [read okc]. intros t. cbn [okc]. destruct (cond_reserve_static_inline needed).
    + cbn [okc fst snd holds holds_excl]. split; [exact Hs|]. split; [exact I|]. split; [auto|intros x; cbn [nm]; lia].
    + apply okc_bind. apply ok_heap_with_additional.
      * cbn [okc fst snd holds]. split; [exact Hs|]. split; [exact I|]. split; [discriminate|apply cons_same; reflexivity].
      * intros b' l' H1 H2 H3. cbn [okc fst snd holds holds_excl]. gs.
        split; [exact Hs|]. split; [split; [lia|exact H3]|]. split; [intros _; split; [lia|]; split; [exact H3|reflexivity]|].
        cons_tac.
Qed.

(* ensure_modifiable: same discipline *)
Lemma ok_ensure_modifiable r g :
  holds g r -> settled g ->
  okc (ensure_modifiable r) g (fun p g' => settled g' /\ holds g' (fst p) /\ (snd p = true -> holds_excl g' (fst p))
                                          /\ cons g r g' (fst p)).
Proof.
  intros Hh Hs. unfold ensure_modifiable. destruct r as [bs|b l|s l].
  - cbn [okc fst snd holds holds_excl]. split; [exact Hs|]. split; [exact I|]. split; [auto|apply cons_same; reflexivity].
  - destruct Hh as (H1 & H2).
    apply okc_bind. unfold heap_is_unique. apply okc_bind. cbn [load okc]. split; [exact H1|]. split; [reflexivity (* acquire: ord_is_unique_0 *)|]. intros v. cbn [okc].
    destruct (N.eqb_spec v 1) as [->|Hne].
    + cbn [okc fst snd holds holds_excl]. gs. split; [exact Hs|]. split; [split; [exact H1|exact H2]|].
      split; [intros _; split; [exact H1|]; split; [exact H2|apply orb_true_r]|apply cons_same; reflexivity].
    + set (g1 := {| g_refs := g_refs g; g_excl := setf (g_excl g) b (g_excl g b || false); g_free := g_free g; g_fen := g_fen g; g_bor := g_bor g |}).
      apply okc_bind. cbn [read okc]. split; [left; exact H1|]. intros t. cbn [okc].
      apply okc_bind. apply ok_heap_new.
      * cbn [okc fst snd holds]. split; [exact Hs|]. split; [split; [exact H1|exact H2]|].
        split; [discriminate|apply cons_same; reflexivity].
      * intros b' l' N1 N2 N3.
        set (g2 := {| g_refs := setf (g_refs g1) b' 1%nat; g_excl := setf (g_excl g1) b' true; g_free := g_free g1; g_fen := g_fen g1; g_bor := g_bor g1 |}).
        assert (Hbb : b' <> b) by (intros ->; cbn [g1 g_refs] in N1; lia).
        assert (Hh2 : holds g2 (Heap b l)).
        { cbn [holds]. unfold g2, g1. gs. apply Nat.eqb_neq in Hbb. rewrite Nat.eqb_sym, Hbb. auto. }
        apply okc_bind. eapply okc_mono.
        -- apply (ok_replace_inner (Heap b l) (Heap b' l') g2); [exact Hh2|exact Hs].
        -- intros r' g' (-> & S' & Hm). pose proof (released_refs _ _ _ Hh2 Hm) as Hrel. destruct Hm as (_ & Same).
           cbn [okc fst snd holds holds_excl].
           destruct (Same b' Hbb) as (E1 & E2 & E3). unfold g2, g1 in E1, E2, E3. revert E1 E2 E3. gs. intros E1 E2 E3.
           split; [exact S'|]. split; [split; [lia|apply S']|]. split; [intros _; split; [lia|]; split; [apply S'|exact E2]|].
           intros x. specialize (Hrel x). unfold g2, g1 in Hrel. cbn [g_refs nm] in Hrel |- *. unfold setf in Hrel.
           cbn [g1 g_refs] in N1.
           repeat match goal with |- context [Nat.eqb ?a ?c] => destruct (Nat.eqb_spec a c); subst end;
           repeat match goal with H : context [Nat.eqb ?a ?c] |- _ => destruct (Nat.eqb_spec a c); subst end; try lia; try congruence.
  - apply okc_bind. cbn [read okc]. intros t. cbn [okc]. apply okc_bind. unfold from_str.
    destruct (cond_from_str_inline (len t)).
    + cbn [okc]. apply okc_bind. cbn [replace_inner okc fst snd holds holds_excl].
      split; [exact Hs|]. split; [exact I|]. split; [auto|intros x; cbn [nm]; lia].
    + apply ok_heap_new.
      * cbn [okc fst snd holds]. split; [exact Hs|]. split; [exact I|]. split; [discriminate|apply cons_same; reflexivity].
      * intros b' l' H1 H2 H3. apply okc_bind. cbn [replace_inner okc fst snd holds holds_excl]. gs.
        split; [exact Hs|]. split; [split; [lia|exact H3]|]. split; [intros _; split; [lia|]; split; [exact H3|reflexivity]|].
        cons_tac.
Qed.

(* ---- no event changes who borrows: the postcondition of any typed command may assume it ---- *)
Lemma okc_bor {R} (c : cmd R) g (Q : R -> ghost -> Prop) :
  okc c g Q -> okc c g (fun r g' => Q r g' /\ g_bor g' = g_bor g).
Proof.
  revert g; induction c as [r| |n k IH|b o n k IH|b n k IH|b c k IH|b k IH|b a o k IH|b o k IH|o k IH|p off n k IH|p off bs k IH|p s d n k IH];
    intros g H; cbn [okc] in *; auto.
  - destruct H as (H1 & H2). split; [apply IH; exact H1|]. intros b Hb1 Hb2 Hb3.
    eapply okc_mono; [apply IH; apply H2; auto|]. intros r g' (HQ & E). split; [exact HQ|exact E].
  - destruct H as (H1 & H2). split; [exact H1|]. intros ok. apply IH. apply H2.
  - destruct H as (H1 & H2 & H3). split; [exact H1|]. split; [exact H2|].
    eapply okc_mono; [apply IH; exact H3|]. intros r g' (HQ & E). split; [exact HQ|exact E].
  - destruct H as (H1 & H2). split; [exact H1|]. apply IH. exact H2.
  - destruct H as (H1 & H2). split; [exact H1|]. intros v. apply IH. apply H2.
  - destruct a.
    + destruct H as (H1 & H2). split; [exact H1|]. intros v.
      eapply okc_mono; [apply IH; apply H2|]. intros r g' (HQ & E). split; [exact HQ|exact E].
    + destruct H as (H1 & H2 & H3 & H4). split; [exact H1|]. split; [exact H2|]. split; [exact H3|]. intros v.
      eapply okc_mono; [apply IH; apply H4|]. intros r g' (HQ & E). split; [exact HQ|exact E].
  - destruct H as (H1 & H2 & H3). split; [exact H1|]. split; [exact H2|]. intros v.
    eapply okc_mono; [apply IH; apply H3|]. intros r g' (HQ & E). split; [exact HQ|exact E].
  - eapply okc_mono; [apply IH; exact H|]. intros r g' (HQ & E). split; [exact HQ|exact E].
  - destruct p as [b|s].
    + destruct H as (H1 & H2). split; [exact H1|]. intros bs. apply IH. apply H2.
    + intros bs. apply IH. apply H.
  - destruct p as [b|s]; [|exact H]. destruct H as (H1 & H2). split; [exact H1|]. apply IH. exact H2.
  - destruct p as [b|s0]; [|exact H]. destruct H as (H1 & H2). split; [exact H1|]. apply IH. exact H2.
Qed.

(* ---- through a borrowed handle (&LeanString lent by another thread): reading, and cloning — the clone is the
        borrower's own handle, accounted for exactly ---- *)
Definition borrows (g : ghost) (r : repr) : Prop :=
  match r with Heap b _ => g_bor g b = true /\ g_free g b = false | _ => True end.
Lemma ok_clone_borrowed r g :
  borrows g r -> settled g ->
  okc (make_shallow_clone r) g (fun r' g' => r' = r /\ holds g' r /\ settled g'
                                             /\ forall x, g_refs g' x = (g_refs g x + nm r x)%nat).
Proof.
  destruct r as [bs|b l|s l]; cbn [make_shallow_clone holds borrows]; intros H Hs.
  - cbn [okc nm]. repeat split; auto.
  - destruct H as (H1 & H2). apply okc_bind. cbn [rmw okc]. split; [right; exact H1|]. intros v. cbn [okc]. split; [reflexivity|].
    cbn [holds]. gs. split; [split; [lia|exact H2]|]. split; [intros x; gs; apply Hs|].
    intros x. cbn [nm]. rewrite (Nat.eqb_sym x b). destruct (Nat.eqb_spec b x) as [->|]; lia.
  - cbn [okc nm]. repeat split; auto.
Qed.
Lemma ok_as_bytes_borrowed r g (Q : list N -> ghost -> Prop) :
  borrows g r -> (forall t, Q t g) -> okc (as_bytes r) g Q.
Proof.
  destruct r as [bs|b l|s l]; cbn [as_bytes borrows]; intros H HQ.
  - cbn [okc]. apply HQ.
  - cbn [read okc]. split; [right; right; right; exact (proj1 H)|]. intros t. cbn [okc]. apply HQ.
  - cbn [read okc]. intros t. cbn [okc]. apply HQ.
Qed.
