(* Decode.v — the decoding constructors (lib.rs:157-251) as operation sequences over the chunk / char lists that
   std's decoders (utf8_chunks, decode_utf16: the same code on the String side) produce. *)
From Coq Require Import Lia Arith ZArith.
From LS Require Import Base Utf8 Utf8Spec Utf8Facts Cmd Impl Exec Specs3 WF Spec Refine Main.
Open Scope N_scope.

Definition REPLACEMENT : N := 65533.          (* char::REPLACEMENT_CHARACTER, encodes to EF BF BD *)
Definition chunk := (list N * bool)%type.     (* valid piece, and whether an invalid piece follows *)

(* from_utf8_lossy: with_capacity(buf.len()), then per chunk push_str(valid) and push(U+FFFD) if invalid is non-empty *)
Definition lossy_chunk_ops (i : nat) (c : chunk) : list op :=
  OPushStr Plain i (fst c) :: (if snd c then [OPush Plain i REPLACEMENT] else @nil op).
Definition lossy_ops (i : nat) (n : N) (cs : list chunk) : list op :=
  OWithCapacity Plain n :: flat_map (lossy_chunk_ops i) cs.
Definition lossy_text (cs : list chunk) : list N :=
  concat (map (fun c : chunk => fst c ++ (if snd c then encode_cp REPLACEMENT else @nil N)) cs).

(* from_utf16 on a fully decodable input / from_utf16_lossy (with lone surrogates already replaced): one push per char *)
Definition chars_ops (i : nat) (n : N) (cs : list N) : list op := OWithCapacity Plain n :: map (OPush Plain i) cs.

Lemma spec_execs_cons st p o ops :
  spec_execs st p (o :: ops) =
  let '(p1, out) := spec_exec st p o in
  let '(p2, outs) := spec_execs st p1 ops in (p2, out :: outs).
Proof.
  unfold spec_execs. cbn [fold_left]. destruct (spec_exec st p o) as [p1 out].
  assert (G : forall ops0 q acc, fold_left (fun acc o => let '(p1, outs) := acc in let '(p2, out) := spec_exec st p1 o in (p2, outs ++ [out])) ops0 (q, acc)
                = let '(p2, outs) := fold_left (fun acc o => let '(p1, outs) := acc in let '(p2, out) := spec_exec st p1 o in (p2, outs ++ [out])) ops0 (q, []) in (p2, acc ++ outs)).
  { induction ops0 as [|o0 ops0 IH]; intros q acc; cbn [fold_left].
    - rewrite app_nil_r. reflexivity.
    - destruct (spec_exec st q o0) as [q1 out1]. rewrite (IH q1 (acc ++ [out1])), (IH q1 ([] ++ [out1])).
      destruct (fold_left _ ops0 (q1, [])) as [p2 outs]. rewrite <- app_assoc. reflexivity. }
  rewrite (G ops p1 ([] ++ [out])). destruct (fold_left _ ops (p1, [])) as [p2 outs]. reflexivity.
Qed.

(* Spec on the lossy operation sequence: what String::from_utf8_lossy builds from the same chunks *)
Lemma spec_lossy_chunks st cs : forall T,
  fst (spec_execs st [Some T] (flat_map (lossy_chunk_ops 0) cs)) = [Some (T ++ lossy_text cs)].
Proof.
  induction cs as [|[v inv] cs IH]; intros T.
  - cbn. rewrite app_nil_r. reflexivity.
  - cbn [flat_map lossy_chunk_ops fst snd app]. rewrite spec_execs_cons. cbn [spec_exec son sget nth_error upd].
    destruct inv.
    + cbn [app]. rewrite spec_execs_cons. cbn [spec_exec son sget nth_error upd].
      specialize (IH ((T ++ v) ++ encode_cp REPLACEMENT)).
      destruct (spec_execs st [Some ((T ++ v) ++ encode_cp REPLACEMENT)] (flat_map (lossy_chunk_ops 0) cs)) as [p2 outs].
      cbn [fst] in *. rewrite IH. unfold lossy_text. cbn [map concat fst snd]. rewrite <- !app_assoc. reflexivity.
    + cbn [app]. specialize (IH (T ++ v)).
      destruct (spec_execs st [Some (T ++ v)] (flat_map (lossy_chunk_ops 0) cs)) as [p2 outs].
      cbn [fst] in *. rewrite IH. unfold lossy_text. cbn [map concat fst snd]. rewrite app_nil_r, <- !app_assoc. reflexivity.
Qed.
Lemma spec_lossy st n cs : fst (spec_execs st [] (lossy_ops 0 n cs)) = [Some (lossy_text cs)].
Proof.
  unfold lossy_ops. rewrite spec_execs_cons. cbn [spec_exec app].
  pose proof (spec_lossy_chunks st cs []) as H. destruct (spec_execs st [Some []] (flat_map (lossy_chunk_ops 0) cs)) as [p2 outs].
  cbn [fst app] in *. exact H.
Qed.

Lemma spec_chars_from st cs : forall T,
  fst (spec_execs st [Some T] (map (OPush Plain 0) cs)) = [Some (T ++ concat (map encode_cp cs))].
Proof.
  induction cs as [|c cs IH]; intros T.
  - cbn. rewrite app_nil_r. reflexivity.
  - cbn [map]. rewrite spec_execs_cons. cbn [spec_exec son sget nth_error upd]. specialize (IH (T ++ encode_cp c)).
    destruct (spec_execs st [Some (T ++ encode_cp c)] (map (OPush Plain 0) cs)) as [p2 outs]. cbn [fst] in *.
    rewrite IH. cbn [concat]. rewrite <- app_assoc. reflexivity.
Qed.
Lemma spec_chars st n cs : fst (spec_execs st [] (chars_ops 0 n cs)) = [Some (concat (map encode_cp cs))].
Proof.
  unfold chars_ops. rewrite spec_execs_cons. cbn [spec_exec app].
  pose proof (spec_chars_from st cs []) as H. destruct (spec_execs st [Some []] (map (OPush Plain 0) cs)) as [p2 outs].
  cbn [fst app] in *. exact H.
Qed.

Lemma lossy_ops_wf st n cs : Forall (fun c => Valid (fst c)) cs -> Forall (op_wf st) (lossy_ops 0 n cs).
Proof.
  intros H. unfold lossy_ops. constructor; [exact I|]. induction H as [|[v inv] cs Hv _ IH]; cbn [flat_map]; [constructor|].
  apply Forall_app. split; [|exact IH]. unfold lossy_chunk_ops. cbn [fst snd]. constructor; [exact Hv|].
  destruct inv; [|constructor]. constructor; [reflexivity|constructor].
Qed.
Lemma chars_ops_wf st n cs : scalars cs -> Forall (op_wf st) (chars_ops 0 n cs).
Proof.
  intros H. unfold chars_ops. constructor; [exact I|]. induction H as [|c cs Hc _ IH]; cbn [map]; constructor; auto.
Qed.
