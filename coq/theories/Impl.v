(* Impl.v — the crate's functions, one definition per Rust function, as command trees.
   64-bit little-endian target.  Source locations are given for orientation only. *)
From LS Require Import Base Utf8 Cmd.
From LSGen Require Import GenSrc.

(* A handle: the 16-byte value.  Inline keeps all 16 bytes (stale ones included). *)
Inductive repr :=
| Inline (bs : list N)
| Heap (b : bufid) (l : N)
| Static (s : sid) (l : N).

Inductive panic := PReserve | PIndex | PUser | PTooLong.
Inductive res (A : Type) := ROk (a : A) | RErr (* ReserveError *) | RPanic (p : panic).
Arguments ROk {A}. Arguments RErr {A}. Arguments RPanic {A}.

(* ---------- inline_buffer.rs ---------- *)
Definition TAG : N := MASK_1100_0000.
Definition zeros (n : nat) : list N := repeat 0 n.
(* InlineBuffer::new: tag first, then the text copied over it (so a 16-byte text overwrites the tag) *)
Definition inline_new (t : list N) : list N :=
  write_range (zeros 15 ++ [expr_inline_tag (len t)]) 0 t.
Definition inline_empty : list N := zeros 15 ++ [TAG].
(* InlineBuffer::set_len (inline_buffer.rs:46-52) *)
Definition inline_set_len (bs : list N) (n : N) : list N :=
  if cond_inline_set_len_tag n then upd bs 15 (expr_inline_tag n) else bs.
(* Repr::len for an inline value (repr.rs:118-129) *)
Definition inline_len (bs : list N) : N :=
  expr_inline_len (nthN bs 15).
Definition inline_text (bs : list N) : list N := firstn (N.to_nat (inline_len bs)) bs.

Definition repr_len (r : repr) : N :=
  match r with Inline bs => inline_len bs | Heap _ l => l | Static _ l => l end.
Definition is_heap (r : repr) : bool := match r with Heap _ _ => true | _ => false end.
Definition is_static (r : repr) : bool := match r with Static _ _ => true | _ => false end.
Definition repr_new : repr := Inline inline_empty.

(* ---------- heap_buffer.rs ---------- *)
Definition text_len_new (n : N) : option N := if cond_text_len_too_big n then None else Some n.
Definition capacity_new (c : N) : option N := if cond_capacity_too_big c then None else Some c.
(* layout_from_capacity: checked_add, then Layout::from_size_align(size, 8) (size rounded up to 8 must fit isize) *)
Definition layout_from_capacity (c : N) : option N :=
  match checked_add HDR c with
  | Some size => if size <=? ISIZE_MAX - 7 then Some size else None
  | None => None
  end.

(* allocate_ptr (heap_buffer.rs:284-309) *)
Definition allocate_ptr (c : N) : cmd (option bufid) :=
  match layout_from_capacity c with
  | None => Ret None
  | Some size =>
      ob <- alloc size ;;
      match ob with
      | None => Ret None
      | Some b => hdr_init b c ;;; Ret (Some b)
      end
  end.

(* HeapBuffer::new (43-66) *)
Definition heap_new (t : list N) : cmd (option repr) :=
  match text_len_new (len t) with
  | None => Ret None
  | Some l =>
      match capacity_new (len t) with
      | None => Ret None
      | Some c =>
          ob <- allocate_ptr c ;;
          match ob with
          | None => Ret None
          | Some b => write (PHeap b) 0 t ;;; Ret (Some (Heap b l))
          end
      end
  end.

(* HeapBuffer::with_capacity (68-73) *)
Definition heap_with_capacity (c : N) : cmd (option repr) :=
  match text_len_new 0 with
  | None => Ret None
  | Some l =>
      match capacity_new c with
      | None => Ret None
      | Some c' =>
          ob <- allocate_ptr c' ;;
          match ob with
          | None => Ret None
          | Some b => Ret (Some (Heap b l))
          end
      end
  end.

(* HeapBuffer::with_additional (75-102) *)
Definition heap_with_additional (t : list N) (additional : N) : cmd (option repr) :=
  match text_len_new (len t) with
  | None => Ret None
  | Some l =>
      match capacity_new (amortized_growth (len t) additional) with
      | None => Ret None
      | Some c =>
          ob <- allocate_ptr c ;;
          match ob with
          | None => Ret None
          | Some b => write (PHeap b) 0 t ;;; Ret (Some (Heap b l))
          end
      end
  end.

(* HeapBuffer::realloc, 64-bit arm (130-218) *)
Definition heap_realloc (b : bufid) (new_capacity : N) : cmd bool :=
  match capacity_new new_capacity with
  | None => Ret false
  | Some nc =>
      cur <- hdr_cap b ;;
      match layout_from_capacity cur with
      | None => Unreachable
      | Some cur_size =>
          ok <- realloc b cur_size (wrapping_add HDR nc) ;;
          if ok then hdr_init b nc ;;; Ret true else Ret false
      end
  end.

(* HeapBuffer::dealloc (222-238) *)
Definition heap_dealloc (b : bufid) : cmd unit :=
  c <- hdr_cap b ;;
  match layout_from_capacity c with
  | None => Unreachable
  | Some size => dealloc b size
  end.

(* HeapBuffer::is_unique (240-242) *)
Definition heap_is_unique (b : bufid) : cmd bool :=
  v <- load b ord_is_unique_0 ;; Ret (v =? 1).

(* HeapBuffer::set_len (255-282): the length lives in the handle *)
Definition heap_set_len (b : bufid) (n : N) : cmd repr :=
  match text_len_new n with
  | None => Unreachable
  | Some l => Ret (Heap b l)
  end.

(* ---------- repr.rs ---------- *)
(* Repr::as_bytes / as_str *)
Definition as_bytes (r : repr) : cmd (list N) :=
  match r with
  | Inline bs => Ret (inline_text bs)
  | Heap b l => read (PHeap b) 0 l
  | Static s l => read (PStatic s) 0 l
  end.

(* Repr::capacity (154-165) *)
Definition capacity (r : repr) : cmd N :=
  match r with
  | Heap b _ => hdr_cap b
  | Static _ l => Ret l
  | Inline _ => Ret MAX_INLINE_SIZE
  end.

(* Repr::from_str (48-56) *)
Definition from_str (t : list N) : cmd (option repr) :=
  if cond_from_str_inline (len t) then Ret (Some (Inline (inline_new t))) else heap_new t.

(* Repr::from_static_str (82-94); the caller passes the static's id and length *)
Definition from_static_str (s : sid) (l : N) : cmd (res repr) :=
  if cond_from_static_inline l then
    t <- read (PStatic s) 0 l ;; Ret (ROk (Inline (inline_new t)))
  else if cond_static_too_long l then Ret (RPanic PTooLong)     (* LeanString::from_static_str panics *)
  else Ret (ROk (Static s l)).

(* Repr::with_capacity (96-103) *)
Definition with_capacity (c : N) : cmd (option repr) :=
  if cond_with_capacity_inline c then Ret (Some repr_new) else heap_with_capacity c.

(* Repr::replace_inner (576-600): returns the new value of *self *)
Definition replace_inner (r other : repr) : cmd repr :=
  match r with
  | Heap b _ =>
      v <- rmw b false ord_replace_inner_0 ;;
      if v =? 1 then fence ord_replace_inner_1 ;;; heap_dealloc b ;;; Ret other else Ret other
  | _ => Ret other
  end.

(* Repr::make_shallow_clone (538-574); the overflow guard is not modelled (count is unbounded) *)
Definition make_shallow_clone (r : repr) : cmd repr :=
  match r with
  | Heap b _ => rmw b true ord_make_shallow_clone_0 ;;; Ret r
  | _ => Ret r
  end.

(* Repr::is_unique (528-536) *)
Definition is_unique (r : repr) : cmd bool :=
  match r with Heap b _ => heap_is_unique b | _ => Ret true end.

(* Repr::set_len (686-706) *)
Definition set_len (r : repr) (n : N) : cmd repr :=
  match r with
  | Static s _ => Ret (Static s n)
  | Heap b _ => heap_set_len b n
  | Inline bs => Ret (Inline (inline_set_len bs n))
  end.

(* Repr::reserve (188-249).  Returns the new *self and whether it succeeded. *)
Definition reserve (r : repr) (additional : N) : cmd (repr * bool) :=
  let l := repr_len r in
  match checked_add l additional with
  | None => Ret (r, false)
  | Some needed =>
      match r with
      | Heap b _ =>
          u <- heap_is_unique b ;;
          if u then
            c <- hdr_cap b ;;
            if cond_reserve_enough c needed then Ret (r, true) else
            ok <- heap_realloc b (amortized_growth l additional) ;;
            Ret (r, ok)
          else
            t <- read (PHeap b) 0 l ;;
            on <- heap_with_additional t additional ;;
            match on with
            | None => Ret (r, false)
            | Some r' => r'' <- replace_inner r r' ;; Ret (r'', true)
            end
      | Static s _ =>
          t <- read (PStatic s) 0 l ;;
          if cond_reserve_static_inline needed then Ret (Inline (inline_new t), true) else
          on <- heap_with_additional t additional ;;
          match on with None => Ret (r, false) | Some r' => Ret (r', true) end
      | Inline bs =>
          if cond_reserve_inline_grow needed then
            on <- heap_with_additional (inline_text bs) additional ;;
            match on with None => Ret (r, false) | Some r' => Ret (r', true) end
          else Ret (r, true)
      end
  end.

(* HeapBuffer::with_exact_capacity (added by the F2 repair): with_capacity, copy, set_len *)
Definition heap_with_exact_capacity (t : list N) (c : N) : cmd (option repr) :=
  on <- heap_with_capacity c ;;
  match on with
  | Some (Heap b _) => write (PHeap b) 0 t ;;; r <- heap_set_len b (len t) ;; Ret (Some r)
  | _ => Ret None
  end.

(* Repr::shrink_to (251-289) *)
Definition shrink_to (r : repr) (min_capacity : N) : cmd (repr * bool) :=
  match r with
  | Heap b l =>
      let new_capacity := expr_shrink_new_capacity l min_capacity in
      old_capacity <- hdr_cap b ;;
      if cond_shrink_inline new_capacity then
        t <- read (PHeap b) 0 l ;;
        r' <- replace_inner r (Inline (inline_new t)) ;; Ret (r', true)
      else if cond_shrink_noop new_capacity old_capacity then Ret (r, true)
      else
        u <- heap_is_unique b ;;
        if u then ok <- heap_realloc b new_capacity ;; Ret (r, ok)
        else
          t <- read (PHeap b) 0 l ;;
          on <- heap_with_exact_capacity t new_capacity ;;
          match on with
          | None => Ret (r, false)
          | Some r' => r'' <- replace_inner r r' ;; Ret (r'', true)
          end
  | _ => Ret (r, true)
  end.

(* Repr::ensure_modifiable (618-641) *)
Definition ensure_modifiable (r : repr) : cmd (repr * bool) :=
  match r with
  | Heap b l =>
      u <- heap_is_unique b ;;
      if u then Ret (r, true) else
      t <- read (PHeap b) 0 l ;;
      on <- heap_new t ;;
      match on with
      | None => Ret (r, false)
      | Some r' => r'' <- replace_inner r r' ;; Ret (r'', true)
      end
  | Static s l =>
      t <- read (PStatic s) 0 l ;;
      on <- from_str t ;;
      match on with
      | None => Ret (r, false)
      | Some r' => r'' <- replace_inner r r' ;; Ret (r'', true)
      end
  | Inline _ => Ret (r, true)
  end.

(* writes through as_slice_mut: to the buffer for Heap, into the value for Inline *)
Definition write_at (r : repr) (off : N) (bs : list N) : cmd repr :=
  match r with
  | Heap b _ => write (PHeap b) off bs ;;; Ret r
  | Inline d => Ret (Inline (write_range d (N.to_nat off) bs))
  | Static s _ => write (PStatic s) off bs ;;; Ret r          (* never reached: UB StaticWrite *)
  end.
Definition move_at (r : repr) (src dst n : N) : cmd repr :=
  match r with
  | Heap b _ => move (PHeap b) src dst n ;;; Ret r
  | Inline d => Ret (Inline (move_range d (N.to_nat src) (N.to_nat dst) (N.to_nat n)))
  | Static s _ => move (PStatic s) src dst n ;;; Ret r
  end.

(* Repr::push_str (291-321) *)
Definition push_str (r : repr) (s : list N) : cmd (repr * bool) :=
  match s with
  | [] => Ret (r, true)
  | _ =>
      let l := repr_len r in
      p <- reserve r (len s) ;;
      let '(r1, ok) := p in
      if negb ok then Ret (r1, false) else
      r2 <- write_at r1 l s ;;
      r3 <- set_len r2 (l + len s) ;;
      Ret (r3, true)
  end.

(* Repr::truncate_unchecked (480-526), 64-bit: only the handle-local length changes *)
Definition truncate_unchecked (r : repr) (n : N) : cmd repr :=
  match r with
  | Heap b _ => heap_set_len b n
  | Static s _ => Ret (Static s n)
  | Inline bs => Ret (Inline (inline_set_len bs n))
  end.

(* Repr::pop (323-339): new *self and the popped char's code point *)
Definition pop (r : repr) : cmd (repr * option N) :=
  t <- as_bytes r ;;
  match t with
  | [] => Ret (r, None)
  | _ =>
      let ch := last_char t in
      r' <- truncate_unchecked r (repr_len r - len (encode_cp (decode_cp ch))) ;;
      Ret (r', Some (decode_cp ch))
  end.

(* Repr::truncate (460-474) *)
Definition truncate (r : repr) (n : N) : cmd (repr * res unit) :=
  if cond_truncate_noop n (repr_len r) then Ret (r, ROk tt) else
  t <- as_bytes r ;;
  if negb (is_char_boundary t n) then Ret (r, RPanic PIndex) else
  r' <- truncate_unchecked r n ;; Ret (r', ROk tt).

(* Repr::remove (341-376) *)
Definition remove (r : repr) (idx : N) : cmd (repr * res N) :=
  t <- as_bytes r ;;
  if negb (is_char_boundary t idx) then Ret (r, RPanic PIndex) else
  let l := repr_len r in
  if negb (idx <? l) then Ret (r, RPanic PIndex) else
  p <- ensure_modifiable r ;;
  let '(r1, ok) := p in
  if negb ok then Ret (r1, RErr) else
  let ch := first_char (skipn (N.to_nat idx) t) in
  let ch_len := len (encode_cp (decode_cp ch)) in
  r2 <- move_at r1 (idx + ch_len) idx (l - idx - ch_len) ;;
  r3 <- set_len r2 (l - ch_len) ;;
  Ret (r3, ROk (decode_cp ch)).

(* Repr::insert_str (428-458) *)
Definition insert_str (r : repr) (idx : N) (s : list N) : cmd (repr * res unit) :=
  t <- as_bytes r ;;
  if negb (is_char_boundary t idx) then Ret (r, RPanic PIndex) else
  match checked_add (repr_len r) (len s) with
  | None => Ret (r, RErr)
  | Some new_len =>
      p <- reserve r (len s) ;;
      let '(r1, ok) := p in
      if negb ok then Ret (r1, RErr) else
      r2 <- move_at r1 idx (idx + len s) (new_len - idx - len s) ;;
      r3 <- write_at r2 idx s ;;
      r4 <- set_len r3 new_len ;;
      Ret (r4, ROk tt)
  end.

(* Repr::retain (378-426).  The predicate is modelled by its answer to the k-th call: Some keep / None = panics.
   The loop reads each char from the not-yet-overwritten tail; the model reads the text once (dst <= src always). *)
Fixpoint retain_loop (r : repr) (chars : list (list N)) (k : nat) (pred : nat -> option bool) (dst : N)
  : cmd (repr * N * bool (* completed? *)) :=
  match chars with
  | [] => Ret (r, dst, true)
  | ch :: rest =>
      match pred k with
      | None => Ret (r, dst, false)
      | Some true =>
          r' <- write_at r dst (encode_cp (decode_cp ch)) ;;
          retain_loop r' rest (S k) pred (dst + len (encode_cp (decode_cp ch)))
      | Some false => retain_loop r rest (S k) pred dst
      end
  end.
Definition retain (r : repr) (pred : nat -> option bool) : cmd (repr * res unit) :=
  p <- ensure_modifiable r ;;
  let '(r1, ok) := p in
  if negb ok then Ret (r1, RErr) else
  t <- as_bytes r1 ;;
  q <- retain_loop r1 (chars_of t) 0 pred 0 ;;
  let '(r2, dst, completed) := q in
  r3 <- set_len r2 dst ;;                       (* SetLenOnDrop runs on both paths *)
  Ret (r3, if completed then ROk tt else RPanic PUser).

(* LeanString::clear (846-856) *)
Definition clear (r : repr) : cmd repr :=
  u <- is_unique r ;;
  if u then set_len r 0 else replace_inner r repr_new.
