(* Num.v — proofs about the integer formatter model of NumModel.v:
   the writer produces exactly the decimal text, of exactly `digits_count` bytes, never storing out of bounds. *)
From Coq Require Import ZArith Lia List Bool.
From LS Require Import Base NumModel.
Open Scope N_scope.

(* lia extended with Euclidean division by constants; scoped to this tactic only *)
Ltac dlia := zify; Z.to_euclidean_division_equations; lia.
(* equality of two lists cell by cell, each cell by dlia *)
Ltac list_eq := repeat (apply f_equal2; [dlia|]); reflexivity.

(* ---------- powers of ten ---------- *)
Fixpoint p10 (d : nat) : N := match d with O => 1 | S d' => p10 d' * 10 end.

Lemma p10_pos : forall d, 0 < p10 d.
Proof. induction d as [|d IH]; cbn [p10]; lia. Qed.

Lemma p10_le : forall a b, (a <= b)%nat -> p10 a <= p10 b.
Proof. intros a b H. induction H as [|b H IH]; cbn [p10]; lia. Qed.

Lemma p10_add : forall a b, p10 (a + b) = p10 a * p10 b.
Proof. induction a as [|a IH]; intros b; cbn [p10 Nat.add]; [lia | rewrite IH; lia]. Qed.

Lemma p10_19 : p10 19 = 10000000000000000000. Proof. vm_compute. reflexivity. Qed.
Lemma p10_20 : p10 20 = 100000000000000000000. Proof. vm_compute. reflexivity. Qed.
Lemma p10_21 : p10 21 = 1000000000000000000000. Proof. vm_compute. reflexivity. Qed.

(* ---------- ndigits: characterisation, uniqueness, monotonicity ---------- *)
Lemma ndig_fuel_spec : forall fuel n k,
  (k = 0%nat \/ p10 k <= n) -> n < p10 (S k + fuel) ->
  exists r, ndig_fuel fuel n (p10 (S k)) (S k) = S r /\ n < p10 (S r) /\ (r = 0%nat \/ p10 r <= n).
Proof.
  induction fuel as [|f IH]; intros n k Hlo Hhi.
  - exists k. cbn [ndig_fuel]. rewrite Nat.add_0_r in Hhi. auto.
  - cbn [ndig_fuel]. destruct (N.ltb_spec n (p10 (S k))) as [Hlt|Hge].
    + exists k; auto.
    + change (p10 (S k) * 10) with (p10 (S (S k))). apply IH.
      * right; exact Hge.
      * replace (S (S k) + f)%nat with (S k + S f)%nat by lia. exact Hhi.
Qed.

Lemma ndigits_spec : forall n, n < p10 20 ->
  exists r, ndigits n = S r /\ n < p10 (S r) /\ (r = 0%nat \/ p10 r <= n).
Proof.
  intros n Hn.
  assert (H21 : n < p10 (1 + 20)) by (change (1 + 20)%nat with 21%nat; rewrite p10_21; rewrite p10_20 in Hn; lia).
  exact (ndig_fuel_spec 20 n 0 (or_introl eq_refl) H21).
Qed.

Lemma ndigits_unique : forall n r, n < p10 20 -> n < p10 (S r) -> (r = 0%nat \/ p10 r <= n) -> ndigits n = S r.
Proof.
  intros n r Hn Hhi Hlo.
  destruct (ndigits_spec n Hn) as [r' [E [Hhi' Hlo']]]. rewrite E. f_equal.
  destruct (Nat.lt_trichotomy r r') as [Hlt|[Heq|Hgt]].
  - exfalso. destruct Hlo' as [H0|Hlo']; [lia|].
    pose proof (p10_le (S r) r' Hlt) as Hle. lia.
  - symmetry; exact Heq.
  - exfalso. destruct Hlo as [H0|Hlo]; [lia|].
    pose proof (p10_le (S r') r Hgt) as Hle. lia.
Qed.

Lemma ndigits_le : forall n d, n < p10 20 -> n < p10 (S d) -> (ndigits n <= S d)%nat.
Proof.
  intros n d Hn Hd.
  destruct (ndigits_spec n Hn) as [r [E [Hhi Hlo]]]. rewrite E.
  destruct (Nat.le_gt_cases r d) as [Hle|Hgt]; [lia|].
  exfalso. destruct Hlo as [H0|Hlo]; [lia|].
  pose proof (p10_le (S d) r Hgt) as Hle. lia.
Qed.

Lemma ndigits_pos : forall n, n < p10 20 -> (1 <= ndigits n)%nat.
Proof. intros n Hn. destruct (ndigits_spec n Hn) as [r [E _]]. lia. Qed.

Lemma ndigits_mono : forall n m, n <= m -> m < p10 20 -> (ndigits n <= ndigits m)%nat.
Proof.
  intros n m Hnm Hm.
  assert (Hn : n < p10 20) by lia.
  destruct (ndigits_spec n Hn) as [r [E [Hhi Hlo]]].
  destruct (ndigits_spec m Hm) as [r' [E' [Hhi' Hlo']]].
  rewrite E, E'.
  destruct (Nat.le_gt_cases r r') as [Hle|Hgt]; [lia|].
  exfalso. destruct Hlo as [H0|Hlo]; [lia|].
  pose proof (p10_le (S r') r Hgt) as Hle. lia.
Qed.

Lemma ndigits_div : forall n j, p10 j <= n -> n < p10 20 -> (ndigits (n / p10 j) + j = ndigits n)%nat.
Proof.
  intros n j Hj Hn.
  pose proof (p10_pos j) as Hp.
  assert (Hnz : p10 j <> 0) by lia.
  assert (Hq : n / p10 j < p10 20).
  { apply N.le_lt_trans with n; [|exact Hn]. apply N.div_le_upper_bound; [exact Hnz|]. nia. }
  destruct (ndigits_spec _ Hq) as [r [E [Hhi Hlo]]]. rewrite E.
  symmetry. change (S r + j)%nat with (S (r + j)). apply ndigits_unique; [exact Hn| |].
  - change (S (r + j)) with (S r + j)%nat. rewrite p10_add.
    destruct (N.lt_ge_cases n (p10 (S r) * p10 j)) as [Hlt|Hge]; [exact Hlt|exfalso].
    rewrite N.mul_comm in Hge.
    pose proof (N.div_le_lower_bound n (p10 j) (p10 (S r)) Hnz Hge) as Hc. lia.
  - right. rewrite p10_add. destruct Hlo as [H0|Hlo].
    + subst r. cbn [p10]. lia.
    + pose proof (N.mul_div_le n (p10 j) Hnz) as Hm.
      pose proof (N.mul_le_mono_l _ _ (p10 j) Hlo) as Hm2. lia.
Qed.

(* ---------- digs ---------- *)
Lemma digs_length : forall d n, length (digs d n) = d.
Proof.
  induction d as [|d IH]; intros n; cbn [digs]; [reflexivity|].
  rewrite app_length, IH. cbn [length]. lia.
Qed.

Lemma digs_app : forall b a n, digs (b + a) n = digs a (n / p10 b) ++ digs b n.
Proof.
  induction b as [|b IH]; intros a n; cbn [Nat.add digs p10].
  - rewrite N.div_1_r, app_nil_r. reflexivity.
  - rewrite IH, app_assoc. f_equal. f_equal.
    pose proof (p10_pos b) as Hp.
    rewrite N.div_div by lia. rewrite (N.mul_comm 10). reflexivity.
Qed.

Lemma digs_ascii : forall d n, Forall (fun b => b = 45 \/ 48 <= b <= 57) (digs d n).
Proof.
  induction d as [|d IH]; intros n; cbn [digs]; [constructor|].
  apply Forall_app. split; [apply IH|].
  constructor; [|constructor]. right. dlia.
Qed.

Lemma digs2 : forall x, x < 100 -> digs 2 x = [48 + x / 10; 48 + x mod 10].
Proof. intros x Hx. cbn [digs app]. f_equal. f_equal. dlia. Qed.

Lemma digs4 : forall n,
  digs 4 n = [48 + n mod 10000 / 100 / 10; 48 + (n mod 10000 / 100) mod 10;
              48 + n mod 10000 mod 100 / 10; 48 + (n mod 10000 mod 100) mod 10].
Proof. intros n. cbn [digs app]. list_eq. Qed.

(* ---------- lists: len, upd, splitting off the last k cells ---------- *)
Lemma len_app : forall (A : Type) (a b : list A), len (a ++ b) = len a + len b.
Proof. intros A a b. unfold len. rewrite app_length. lia. Qed.

Lemma upd_app : forall (A : Type) (pre : list A) x post y, upd (pre ++ x :: post) (length pre) y = pre ++ y :: post.
Proof.
  intros A pre x post y. induction pre as [|a pre IH]; cbn [app length upd]; [reflexivity|].
  f_equal. exact IH.
Qed.

Lemma split_last : forall (A : Type) (k : nat) (l : list A), (k <= length l)%nat ->
  exists l1 l2, l = l1 ++ l2 /\ length l2 = k.
Proof.
  intros A k l Hk. exists (firstn (length l - k) l), (skipn (length l - k) l). split.
  - symmetry. apply firstn_skipn.
  - rewrite skipn_length. lia.
Qed.

(* ---------- stores ---------- *)
Lemma store1_spec : forall pre a post y, store1 (pre ++ a :: post) (len pre) y = Some (pre ++ y :: post).
Proof.
  intros pre a post y. unfold store1.
  destruct (N.ltb_spec (len pre) (len (pre ++ a :: post))) as [_|H].
  - unfold len. rewrite Nat2N.id, upd_app. reflexivity.
  - exfalso. rewrite len_app in H. unfold len in H. cbn [length] in H. lia.
Qed.

Lemma lut_entries : forall lut, lut_ok lut = true -> forall x, x < 100 ->
  len lut = 200 /\ nthN lut (N.to_nat (x * 2)) = 48 + x / 10 /\ nthN lut (N.to_nat (x * 2 + 1)) = 48 + x mod 10.
Proof.
  intros lut Hlut x Hx. unfold lut_ok in Hlut.
  apply andb_prop in Hlut. destruct Hlut as [Hlen Hall].
  apply N.eqb_eq in Hlen. split; [exact Hlen|].
  rewrite forallb_forall in Hall.
  assert (Hin : In (N.to_nat x) (seq 0 100)) by (apply in_seq; lia).
  specialize (Hall _ Hin). apply andb_prop in Hall. destruct Hall as [H1 H2].
  apply N.eqb_eq in H1. apply N.eqb_eq in H2. rewrite N2Nat.id in H1, H2.
  replace (N.to_nat (x * 2)) with (2 * N.to_nat x)%nat by lia.
  replace (N.to_nat (x * 2 + 1)) with (2 * N.to_nat x + 1)%nat by lia.
  split; assumption.
Qed.

Lemma store2_spec : forall lut, lut_ok lut = true -> forall x pre a b post, x < 100 ->
  store2 lut (pre ++ a :: b :: post) (len pre) (x * 2) = Some (pre ++ (48 + x / 10) :: (48 + x mod 10) :: post).
Proof.
  intros lut Hlut x pre a b post Hx.
  destruct (lut_entries lut Hlut x Hx) as [Hlen [H1 H2]].
  unfold store2. rewrite Hlen, H1, H2.
  destruct (N.ltb_spec (x * 2 + 1) 200) as [_|Hbad]; [|lia].
  rewrite store1_spec.
  replace (pre ++ (48 + x / 10) :: b :: post) with ((pre ++ [48 + x / 10]) ++ b :: post)
    by (rewrite <- app_assoc; reflexivity).
  replace (len pre + 1) with (len (pre ++ [48 + x / 10])) by (rewrite len_app; reflexivity).
  rewrite store1_spec. rewrite <- app_assoc. reflexivity.
Qed.

Lemma store4_spec : forall lut, lut_ok lut = true -> forall n pre a b c d post,
  exists b1,
    store2 lut (pre ++ a :: b :: c :: d :: post) (len pre) ((n mod 10000 / 100) * 2) = Some b1 /\
    store2 lut b1 (len pre + 2) ((n mod 10000 mod 100) * 2) = Some (pre ++ digs 4 n ++ post).
Proof.
  intros lut Hlut n pre a b c d post.
  assert (Hx1 : n mod 10000 / 100 < 100) by dlia.
  assert (Hx2 : n mod 10000 mod 100 < 100) by dlia.
  eexists. split.
  - apply (store2_spec lut Hlut); exact Hx1.
  - set (v1 := 48 + n mod 10000 / 100 / 10). set (v2 := 48 + (n mod 10000 / 100) mod 10).
    replace (pre ++ v1 :: v2 :: c :: d :: post) with ((pre ++ [v1; v2]) ++ c :: d :: post)
      by (rewrite <- app_assoc; reflexivity).
    replace (len pre + 2) with (len (pre ++ [v1; v2])) by (rewrite len_app; reflexivity).
    rewrite (store2_spec lut Hlut) by exact Hx2.
    rewrite digs4. rewrite <- app_assoc. reflexivity.
Qed.

Lemma dec_curr_spec : forall (A : Type) (pre l2 : list A) k, len l2 = k -> dec_curr (len (pre ++ l2)) k = Some (len pre).
Proof.
  intros A pre l2 k Hk. unfold dec_curr. rewrite len_app.
  destruct (N.ltb_spec (len pre + len l2) k) as [Hbad|_]; [lia|].
  f_equal. lia.
Qed.

(* ---------- the 4-digits-at-a-time loop ---------- *)
Fixpoint p4 (fuel : nat) : N := match fuel with O => 1 | S f => 10000 * p4 f end.

Lemma loop4_spec : forall lut, lut_ok lut = true -> forall fuel n junk suffix,
  n < p4 fuel -> n < p10 20 -> N.of_nat (ndigits n) <= len junk ->
  exists k junk',
    loop4 fuel lut n (len junk) (junk ++ suffix) = Some (n / p10 k, len junk', junk' ++ digs k n ++ suffix) /\
    n / p10 k < 10000 /\ len junk' + N.of_nat k = len junk /\ (ndigits (n / p10 k) + k = ndigits n)%nat.
Proof.
  intros lut Hlut.
  assert (Hbase : forall fuel n junk suffix, n < 10000 ->
    exists k junk',
      loop4 fuel lut n (len junk) (junk ++ suffix) = Some (n / p10 k, len junk', junk' ++ digs k n ++ suffix) /\
      n / p10 k < 10000 /\ len junk' + N.of_nat k = len junk /\ (ndigits (n / p10 k) + k = ndigits n)%nat).
  { intros fuel n junk suffix Hlt. exists 0%nat, junk. cbn [p10 digs app]. rewrite N.div_1_r.
    repeat split; try lia.
    destruct fuel as [|f]; cbn [loop4]; destruct (N.ltb_spec n 10000) as [_|Hbad]; try lia; reflexivity. }
  induction fuel as [|f IH]; intros n junk suffix Hf Hn Hj.
  - apply Hbase. cbn [p4] in Hf. lia.
  - destruct (N.lt_ge_cases n 10000) as [Hlt|Hge]; [apply Hbase; exact Hlt|].
    assert (Hd : (ndigits (n / 10000) + 4 = ndigits n)%nat) by exact (ndigits_div n 4 Hge Hn).
    assert (Hk : (4 <= length junk)%nat) by (unfold len in Hj; lia).
    destruct (split_last _ 4 junk Hk) as [pre [l2 [E Hl2]]].
    destruct l2 as [|a [|b [|c [|d [|e l2]]]]]; try discriminate Hl2. subst junk.
    cbn [loop4]. destruct (N.ltb_spec n 10000) as [Hbad|_]; [lia|].
    rewrite (dec_curr_spec _ pre [a; b; c; d] 4 eq_refl).
    rewrite <- app_assoc. cbn [app].
    destruct (store4_spec lut Hlut n pre a b c d suffix) as [b1 [S1 S2]].
    rewrite S1. cbv beta iota. rewrite S2. cbv beta iota.
    assert (Hf' : n / 10000 < p4 f).
    { cbn [p4] in Hf. apply N.div_lt_upper_bound; lia. }
    assert (Hn' : n / 10000 < p10 20).
    { apply N.le_lt_trans with n; [|exact Hn]. apply N.div_le_upper_bound; lia. }
    assert (Hj' : N.of_nat (ndigits (n / 10000)) <= len pre).
    { rewrite len_app in Hj. unfold len in Hj at 2. cbn [length] in Hj. lia. }
    destruct (IH (n / 10000) pre (digs 4 n ++ suffix) Hf' Hn' Hj') as [k [junk' [EL [H1 [H2 H3]]]]].
    exists (4 + k)%nat, junk'. rewrite EL.
    assert (Hdiv : n / 10000 / p10 k = n / p10 (4 + k)).
    { pose proof (p10_pos k) as Hp. rewrite N.div_div by lia. rewrite p10_add. reflexivity. }
    rewrite <- Hdiv. rewrite digs_app. change (p10 4) with 10000. rewrite <- app_assoc.
    repeat split.
    + exact H1.
    + rewrite len_app. unfold len at 3. cbn [length]. lia.
    + lia.
Qed.

(* ---------- the last 1..4 digits ---------- *)
Lemma ndigits_small : forall n, n < 10000 ->
  (n < 10 /\ ndigits n = 1%nat) \/ (10 <= n < 100 /\ ndigits n = 2%nat) \/
  (100 <= n < 1000 /\ ndigits n = 3%nat) \/ (1000 <= n < 10000 /\ ndigits n = 4%nat).
Proof.
  intros n Hn.
  assert (H20 : n < p10 20) by (rewrite p10_20; lia).
  destruct (N.lt_ge_cases n 10) as [H1|H1].
  { left. split; [exact H1|]. apply ndigits_unique; [exact H20| |left; reflexivity]. cbn [p10]. lia. }
  destruct (N.lt_ge_cases n 100) as [H2|H2].
  { right; left. split; [lia|]. apply ndigits_unique; [exact H20| |right]; cbn [p10]; lia. }
  destruct (N.lt_ge_cases n 1000) as [H3|H3].
  { right; right; left. split; [lia|]. apply ndigits_unique; [exact H20| |right]; cbn [p10]; lia. }
  right; right; right. split; [lia|]. apply ndigits_unique; [exact H20| |right]; cbn [p10]; lia.
Qed.

Lemma tail_spec : forall lut, lut_ok lut = true -> forall n junk suffix,
  n < 10000 -> N.of_nat (ndigits n) <= len junk ->
  exists junk',
    tail lut n (len junk) (junk ++ suffix) = Some (len junk', junk' ++ digs (ndigits n) n ++ suffix) /\
    len junk' + N.of_nat (ndigits n) = len junk.
Proof.
  intros lut Hlut n junk suffix Hn Hj.
  assert (Hk : (ndigits n <= length junk)%nat) by (unfold len in Hj; lia).
  destruct (split_last _ _ junk Hk) as [pre [l2 [E Hl2]]]. subst junk.
  exists pre. split; [|rewrite len_app; unfold len at 3; lia].
  unfold tail.
  destruct (ndigits_small n Hn) as [[Hr Hd]|[[Hr Hd]|[[Hr Hd]|[Hr Hd]]]]; rewrite Hd in *.
  - (* one digit *)
    destruct l2 as [|a [|b l2]]; try discriminate Hl2.
    destruct (N.leb_spec 100 n) as [Hbad|_]; [lia|].
    destruct (N.ltb_spec n 10) as [_|Hbad]; [|lia].
    rewrite (dec_curr_spec _ pre [a] 1 eq_refl).
    rewrite <- app_assoc. cbn [app]. rewrite store1_spec.
    cbn [digs app]. do 3 apply f_equal. list_eq.
  - (* two digits *)
    destruct l2 as [|a [|b [|c l2]]]; try discriminate Hl2.
    destruct (N.leb_spec 100 n) as [Hbad|_]; [lia|].
    destruct (N.ltb_spec n 10) as [Hbad|_]; [lia|].
    rewrite (dec_curr_spec _ pre [a; b] 2 eq_refl).
    rewrite <- app_assoc. cbn [app]. rewrite (store2_spec lut Hlut) by lia.
    rewrite digs2 by lia. reflexivity.
  - (* three digits *)
    destruct l2 as [|a [|b [|c [|d l2]]]]; try discriminate Hl2.
    destruct (N.leb_spec 100 n) as [_|Hbad]; [|lia].
    replace (pre ++ [a; b; c]) with ((pre ++ [a]) ++ [b; c]) by (rewrite <- app_assoc; reflexivity).
    rewrite (dec_curr_spec _ (pre ++ [a]) [b; c] 2 eq_refl).
    rewrite <- app_assoc. cbn [app].
    rewrite (store2_spec lut Hlut) by dlia.
    destruct (N.ltb_spec (n / 100) 10) as [_|Hbad]; [|dlia].
    rewrite (dec_curr_spec _ pre [a] 1 eq_refl).
    rewrite <- app_assoc. cbn [app]. rewrite store1_spec.
    cbn [digs app]. do 3 apply f_equal. list_eq.
  - (* four digits *)
    destruct l2 as [|a [|b [|c [|d [|e l2]]]]]; try discriminate Hl2.
    destruct (N.leb_spec 100 n) as [_|Hbad]; [|lia].
    replace (pre ++ [a; b; c; d]) with ((pre ++ [a; b]) ++ [c; d]) by (rewrite <- app_assoc; reflexivity).
    rewrite (dec_curr_spec _ (pre ++ [a; b]) [c; d] 2 eq_refl).
    rewrite <- app_assoc. cbn [app].
    rewrite (store2_spec lut Hlut) by dlia.
    destruct (N.ltb_spec (n / 100) 10) as [Hbad|_]; [dlia|].
    rewrite (dec_curr_spec _ pre [a; b] 2 eq_refl).
    rewrite <- app_assoc. cbn [app].
    rewrite (store2_spec lut Hlut) by dlia.
    cbn [digs app]. do 3 apply f_equal. list_eq.
Qed.

(* ---------- the whole writer ---------- *)
Lemma len_repeat : forall (x : N) k, len (repeat x (N.to_nat k)) = k.
Proof. intros x k. unfold len. rewrite repeat_length. apply N2Nat.id. Qed.

Lemma len_0_nil : forall (A : Type) (l : list A), len l = 0 -> l = [].
Proof. intros A l H. destruct l as [|a l]; [reflexivity|]. unfold len in H. cbn [length] in H. lia. Qed.

Lemma write_int_correct : forall lut, lut_ok lut = true -> forall (neg : bool) n,
  n < 18446744073709551616 ->
  write_int lut (N.of_nat (ndigits n) + (if neg then 1 else 0)) neg n =
  Some ((if neg then [45] else []) ++ digs (ndigits n) n).
Proof.
  intros lut Hlut neg n Hn.
  assert (H20 : n < p10 20) by (rewrite p10_20; lia).
  assert (H4 : n < p4 6) by (replace (p4 6) with 1000000000000000000000000 by (vm_compute; reflexivity); lia).
  unfold write_int.
  set (dc := N.of_nat (ndigits n) + (if neg then 1 else 0)).
  remember (repeat 255 (N.to_nat dc)) as junk0 eqn:Ej.
  assert (Hlen : len junk0 = dc) by (subst junk0; apply len_repeat).
  assert (Hj : N.of_nat (ndigits n) <= len junk0) by (rewrite Hlen; unfold dc; destruct neg; lia).
  destruct (loop4_spec lut Hlut 6 n junk0 [] H4 H20 Hj) as [k [junk1 [EL [Hn1 [Hl1 Hd1]]]]].
  rewrite app_nil_r, Hlen in EL. rewrite EL.
  assert (Hj1 : N.of_nat (ndigits (n / p10 k)) <= len junk1) by (unfold dc in *; destruct neg; lia).
  destruct (tail_spec lut Hlut (n / p10 k) junk1 (digs k n ++ []) Hn1 Hj1) as [junk2 [ET Hl2]].
  rewrite ET.
  assert (Hdigs : digs (ndigits (n / p10 k)) (n / p10 k) ++ digs k n ++ [] = digs (ndigits n) n).
  { rewrite app_nil_r, <- digs_app. f_equal. lia. }
  rewrite Hdigs.
  assert (Hl : len junk2 = if neg then 1 else 0) by (unfold dc in *; destruct neg; lia).
  destruct neg.
  - destruct junk2 as [|a [|b junk2]]; unfold len in Hl; cbn [length] in Hl; try lia.
    change (len [a]) with (len ([] ++ [a])).
    rewrite (dec_curr_spec _ [] [a] 1 eq_refl).
    change ([a] ++ digs (ndigits n) n) with ([] ++ a :: digs (ndigits n) n).
    rewrite store1_spec. reflexivity.
  - apply len_0_nil in Hl. subst junk2. reflexivity.
Qed.

(* ---------- the range table ---------- *)
Lemma dlen_row : forall a b z k,
  (-9223372036854775808 <= a)%Z -> (b <= 18446744073709551615)%Z -> (a <= z <= b)%Z ->
  (b < 0 \/ 0 <= a)%Z -> dlen a = k -> dlen b = k -> dlen z = k.
Proof.
  intros a b z k Ha Hb Hz Hs Ea Eb. unfold dlen in *.
  destruct Hs as [Hs|Hs].
  - destruct (Z.ltb_spec a 0) as [_|Hbad]; [|lia].
    destruct (Z.ltb_spec b 0) as [_|Hbad]; [|lia].
    destruct (Z.ltb_spec z 0) as [_|Hbad]; [|lia].
    assert (HA : Z.to_N (- a) < p10 20) by (rewrite p10_20; lia).
    assert (HZ : Z.to_N (- z) < p10 20) by (rewrite p10_20; lia).
    pose proof (ndigits_mono (Z.to_N (- b)) (Z.to_N (- z)) ltac:(lia) HZ) as M1.
    pose proof (ndigits_mono (Z.to_N (- z)) (Z.to_N (- a)) ltac:(lia) HA) as M2.
    lia.
  - destruct (Z.ltb_spec a 0) as [Hbad|_]; [lia|].
    destruct (Z.ltb_spec b 0) as [Hbad|_]; [lia|].
    destruct (Z.ltb_spec z 0) as [Hbad|_]; [lia|].
    assert (HB : Z.to_N b < p10 20) by (rewrite p10_20; lia).
    assert (HZ : Z.to_N z < p10 20) by (rewrite p10_20; lia).
    pose proof (ndigits_mono (Z.to_N a) (Z.to_N z) ltac:(lia) HZ) as M1.
    pose proof (ndigits_mono (Z.to_N z) (Z.to_N b) ltac:(lia) HB) as M2.
    lia.
Qed.

Lemma check_rows_le : forall t next hi, check_rows t next hi = true -> (next <= hi + 1)%Z.
Proof.
  induction t as [|[[a b] k] t IH]; intros next hi H; cbn [check_rows] in H.
  - apply Z.eqb_eq in H. lia.
  - rewrite !andb_true_iff in H. destruct H as [[[[[H1 H2] _] _] _] H6].
    apply Z.eqb_eq in H1. apply Z.leb_le in H2. apply IH in H6. lia.
Qed.

Lemma lookup_rows : forall t next hi, check_rows t next hi = true ->
  (-9223372036854775808 <= next)%Z -> (hi <= 18446744073709551615)%Z ->
  forall z, (next <= z <= hi)%Z -> lookup t z = Some (dlen z).
Proof.
  induction t as [|[[a b] k] t IH]; intros next hi H Hlo Hhi z Hz; cbn [check_rows lookup] in *.
  - apply Z.eqb_eq in H. lia.
  - rewrite !andb_true_iff in H. destruct H as [[[[[H1 H2] H3] H4] H5] H6].
    apply Z.eqb_eq in H1. apply Z.leb_le in H2. apply N.eqb_eq in H4. apply N.eqb_eq in H5.
    apply orb_true_iff in H3. rewrite Z.ltb_lt, Z.leb_le in H3.
    pose proof (check_rows_le _ _ _ H6) as Hb.
    destruct (Z.leb_spec z b) as [Hzb|Hzb].
    + destruct (Z.leb_spec a z) as [_|Hbad]; [|lia]. cbn [andb].
      f_equal. symmetry. apply (dlen_row a b z k); try assumption; lia.
    + rewrite andb_false_r. apply (IH (b + 1)%Z hi H6); lia.
Qed.

Lemma check_table_bounds : forall table lo hi, check_table table lo hi = true ->
  (-9223372036854775808 <= lo)%Z /\ (hi <= 18446744073709551615)%Z /\ check_rows table lo hi = true.
Proof.
  intros table lo hi H. unfold check_table in H. rewrite !andb_true_iff in H.
  destruct H as [[H1 H2] H3]. apply Z.leb_le in H1. apply Z.leb_le in H2. auto.
Qed.

(* ================= the six theorems ================= *)

Theorem lookup_is_length :
  forall table lo hi, check_table table lo hi = true ->
    forall z, (lo <= z <= hi)%Z -> lookup table z = Some (dlen z).
Proof.
  intros table lo hi H z Hz.
  destruct (check_table_bounds table lo hi H) as [Hlo [Hhi Hrows]].
  exact (lookup_rows table lo hi Hrows Hlo Hhi z Hz).
Qed.
Print Assumptions lookup_is_length.

Theorem dec_length : forall z, (-9223372036854775808 <= z <= 18446744073709551615)%Z -> len (dec z) = dlen z.
Proof.
  intros z _. unfold dec, dlen, dec_N, len.
  destruct (z <? 0)%Z; cbn [length]; rewrite digs_length; lia.
Qed.
Print Assumptions dec_length.

Theorem dlen_le_20 : forall z, (-9223372036854775808 <= z <= 18446744073709551615)%Z -> 1 <= dlen z <= 20.
Proof.
  intros z Hz. unfold dlen.
  destruct (Z.ltb_spec z 0) as [Hneg|Hpos].
  - assert (H20 : Z.to_N (- z) < p10 20) by (rewrite p10_20; lia).
    assert (H19 : Z.to_N (- z) < p10 19) by (rewrite p10_19; lia).
    pose proof (ndigits_le _ 18 H20 H19) as Hle. lia.
  - assert (H20 : Z.to_N z < p10 20) by (rewrite p10_20; lia).
    pose proof (ndigits_le _ 19 H20 H20) as Hle.
    pose proof (ndigits_pos _ H20) as Hge. lia.
Qed.
Print Assumptions dlen_le_20.

Theorem dec_ascii : forall z, Forall (fun b => b = 45 \/ 48 <= b <= 57) (dec z).
Proof.
  intros z. unfold dec, dec_N. destruct (z <? 0)%Z.
  - constructor; [left; reflexivity|apply digs_ascii].
  - apply digs_ascii.
Qed.
Print Assumptions dec_ascii.

Theorem magnitude_abs : forall z, (-9223372036854775808 <= z <= 18446744073709551615)%Z -> magnitude z = Z.to_N (Z.abs z).
Proof.
  intros z Hz. unfold magnitude, as_u64, wrapping_add, USIZE_MAX.
  destruct (Z.leb_spec 0 z) as [Hpos|Hneg].
  - rewrite Z.mod_small by lia. f_equal. lia.
  - replace (z mod 18446744073709551616)%Z with (z + 18446744073709551616)%Z.
    + change (18446744073709551615 + 1) with 18446744073709551616.
      rewrite N.mod_small by lia. lia.
    + apply (Z.mod_unique _ _ (-1)); lia.
Qed.
Print Assumptions magnitude_abs.

Theorem int_to_text_correct :
  forall (lut : list N) (table : list (Z * Z * N)) (lo hi : Z),
    lut_ok lut = true -> check_table table lo hi = true ->
    forall z : Z, (lo <= z <= hi)%Z -> int_to_text lut table z = Some (dec z).
Proof.
  intros lut table lo hi Hlut Htab z Hz.
  destruct (check_table_bounds table lo hi Htab) as [Hlo [Hhi _]].
  assert (Hr : (-9223372036854775808 <= z <= 18446744073709551615)%Z) by lia.
  unfold int_to_text. rewrite (lookup_is_length table lo hi Htab z Hz), (magnitude_abs z Hr).
  unfold dlen, dec, dec_N.
  destruct (Z.ltb_spec z 0) as [Hneg|Hpos].
  - destruct (Z.leb_spec 0 z) as [Hbad|_]; [lia|]. cbn [negb].
    replace (Z.abs z) with (- z)%Z by lia.
    rewrite (write_int_correct lut Hlut true) by lia. reflexivity.
  - destruct (Z.leb_spec 0 z) as [_|Hbad]; [|lia]. cbn [negb].
    replace (Z.abs z) with z by lia.
    replace (N.of_nat (ndigits (Z.to_N z))) with (N.of_nat (ndigits (Z.to_N z)) + 0) by lia.
    rewrite (write_int_correct lut Hlut false) by lia. reflexivity.
Qed.
Print Assumptions int_to_text_correct.

