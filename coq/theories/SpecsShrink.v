(* SpecsShrink.v — specifications of Repr::shrink_to and LeanString::clear as weakest-precondition rules. *)
From Coq Require Import Lia Arith.
From LS Require Import Base Utf8 Utf8Spec Utf8Facts Cmd Impl Wp ListFacts Growth Inv InlineFacts Exec Specs Specs2.
From LSGen Require Import GenSrc.
Open Scope N_scope.

(* ---------- a heap handle gives up its reference and becomes a handle that names no buffer ---------- *)
Lemma release_step_ok m own b l x r' m' :
  MI (heap m) own -> handle_ok (heap m) (statics m) (Heap b l) -> counted own (Heap b l) ->
  nth_error (heap m) b = Some x -> live x = true ->
  is_heap r' = false -> (forall h, handle_ok h (statics m) r') ->
  same_env m m' -> heap m' = upd (heap m) b (released x) ->
  step_ok m own (Heap b l) m' r'.
Proof.
  intros HM Hr Hc Hb Hl Hnh Hr' He Hh.
  assert (Hnames : forall b', names r' b' = false).
  { intros b'. destruct r' as [bs|b0 l0|s0 l0]; cbn [names is_heap] in *; [reflexivity|discriminate Hnh|reflexivity]. }
  split.
  - exact He.
  - rewrite Hh. eapply MI_release; [exact HM|exact Hb|exact Hl|].
    intros b'. unfold adj. rewrite Hnames. cbn [names one]. rewrite (Nat.eqb_sym b' b). lia.
  - destruct He as (Es & _). rewrite Es. apply Hr'.
  - rewrite Hh. apply frame_release; [exact Hb|exact Hl|].
    unfold others. cbn [names]. rewrite Nat.eqb_refl. cbn [one]. intros Ho.
    destruct (MI_lookup _ _ _ _ HM Hb Hl) as (_ & Hcx & _). lia.
Qed.

(* an inline value built from a short valid text is a well-formed handle in every heap *)
Lemma shr_inline_ok h st t : Valid t -> (length t <= 16)%nat -> handle_ok h st (Inline (inline_new t)).
Proof.
  intros Hv Hl. cbn [handle_ok]. split; [apply inline_new_length; exact Hl|].
  split; [rewrite inline_new_text; [exact Hv|exact Hv|exact Hl]|apply inline_new_lastbyte; [exact Hv|exact Hl]].
Qed.
Lemma shr_new_ok h st : handle_ok h st repr_new.
Proof.
  unfold repr_new. rewrite inline_empty_eq. apply shr_inline_ok; [apply valid_nil|]. cbn [length]. lia.
Qed.
Lemma shr_new_text m : text_of m repr_new = [].
Proof.
  unfold repr_new. rewrite inline_empty_eq. cbn [text_of]. apply inline_new_text; [apply valid_nil|]. cbn [length]. lia.
Qed.

(* ---------- shrink_to ---------- *)
Record shrink_post (m : mem) (own : bufid -> N) (r : repr) (minc : N) (m' : mem) (r' : repr) (ok : bool) : Prop := {
  sh_step : step_ok m own r m' r';
  sh_text : text_of m' r' = text_of m r;
  sh_fail : ok = false -> r' = r /\ heap m' = heap m;
  sh_nonheap : is_heap r = false -> ok = true /\ r' = r /\ heap m' = heap m /\ nreq m' = nreq m;
  sh_heap : is_heap r = true -> ok = true ->
            let nc := N.max (repr_len r) minc in
            (nc <= 16 -> is_heap r' = false /\ is_static r' = false /\ nreq m' = nreq m)
            /\ (16 < nc -> cap_of m r <= nc -> r' = r /\ heap m' = heap m /\ nreq m' = nreq m)
            /\ (16 < nc -> nc < cap_of m r -> is_heap r' = true /\ cap_of m' r' = nc /\ exclusive (heap m') r' /\ nreq m' = nreq m + 1);
  sh_cap : ok = true -> repr_len r <= cap_of m' r' /\ cap_of m' r' <= N.max (cap_of m r) 16;
}.

(* not a heap handle: nothing to do *)
Lemma shrink_post_nonheap m own r minc m' :
  MI (heap m) own -> handle_ok (heap m) (statics m) r -> counted own r ->
  same_env m m' -> heap m' = heap m -> nreq m' = nreq m -> is_heap r = false ->
  shrink_post m own r minc m' r true.
Proof.
  intros HM Hr Hc He Hh Hn Hnh. split.
  - apply step_ok_refl; assumption.
  - apply text_of_same; assumption.
  - intros Hx. discriminate Hx.
  - intros _. repeat split; assumption.
  - intros Hx. rewrite Hnh in Hx. discriminate Hx.
  - intros _. rewrite (cap_of_same m m' r Hh). split; [apply repr_len_le_cap; exact Hr|lia].
Qed.
(* the allocator refused: memory and handle unchanged *)
Lemma shrink_post_fail m own b l minc m' :
  MI (heap m) own -> handle_ok (heap m) (statics m) (Heap b l) -> counted own (Heap b l) ->
  same_env m m' -> heap m' = heap m ->
  shrink_post m own (Heap b l) minc m' (Heap b l) false.
Proof.
  intros HM Hr Hc He Hh. split.
  - apply step_ok_refl; assumption.
  - apply text_of_same; assumption.
  - intros _. split; [reflexivity|exact Hh].
  - cbn [is_heap]. intros Hx. discriminate Hx.
  - intros _ Hx. discriminate Hx.
  - intros Hx. discriminate Hx.
Qed.
(* the buffer is already no larger than what was asked for *)
Lemma shrink_post_noop m own b l x minc m' :
  MI (heap m) own -> handle_ok (heap m) (statics m) (Heap b l) -> counted own (Heap b l) ->
  nth_error (heap m) b = Some x ->
  same_env m m' -> heap m' = heap m -> nreq m' = nreq m ->
  16 < N.max l minc -> cap x <= N.max l minc ->
  shrink_post m own (Heap b l) minc m' (Heap b l) true.
Proof.
  intros HM Hr Hc Hb He Hh Hn Hbig Hnoop.
  pose proof (repr_len_le_cap m (Heap b l) Hr) as Hlc. cbn [repr_len] in Hlc.
  pose proof (cap_of_heap m b l x Hb) as Hcapx.
  split.
  - apply step_ok_refl; assumption.
  - apply text_of_same; assumption.
  - intros Hx. discriminate Hx.
  - cbn [is_heap]. intros Hx. discriminate Hx.
  - intros _ _. cbn [repr_len]. rewrite Hcapx. cbv zeta. split; [|split].
    + intros Hx. lia.
    + intros _ _. repeat split; assumption.
    + intros _ Hx. lia.
  - intros _. rewrite (cap_of_same m m' (Heap b l) Hh). cbn [repr_len]. split; [exact Hlc|lia].
Qed.

Lemma shrink_to_wp m own r minc (Q : out (repr * bool) -> mem -> Prop) :
  MI (heap m) own -> handle_ok (heap m) (statics m) r -> counted own r ->
  (forall m' r' ok, shrink_post m own r minc m' r' ok -> Q (OVal (r', ok)) m') ->
  wp (shrink_to r minc) Q m.
Proof.
  intros HM Hr Hc HQ.
  unfold shrink_to. destruct r as [bs|b l|s l].
  - (* inline *)
    apply wp_ret. apply HQ.
    apply shrink_post_nonheap; [exact HM|exact Hr|exact Hc|apply same_env_refl|reflexivity|reflexivity|reflexivity].
  - (* heap *)
    pose proof Hr as Hr0. destruct Hr as (x & Hb & Hl & Hlc & Hd & Hv).
    destruct (MI_lookup _ _ _ _ HM Hb Hl) as (Hw & Hcx & Hox).
    assert (Hcapx : cap_of m (Heap b l) = cap x) by (apply cap_of_heap; exact Hb).
    assert (Hlt0 : (b < length (heap m))%nat) by (eapply nth_error_lt; exact Hb).
    unfold expr_shrink_new_capacity, cond_shrink_inline, cond_shrink_noop. cbv zeta. rewrite max_inline_16.
    set (nc := N.max l minc) in *.
    assert (Hlnc : l <= nc) by (unfold nc; lia).
    apply wp_bind. eapply hdr_cap_wp; [exact Hb|exact Hl|]. unfold lift.
    destruct (N.leb_spec nc 16) as [Hsmall|Hbig].
    + (* fits inline: copy the text into the handle, release the buffer *)
      apply wp_bind. eapply read_heap_wp; [exact Hb|exact Hl|lia|]. intros m2 He2 Hh2 Hn2. unfold lift.
      change (N.to_nat 0) with 0%nat. rewrite slice_0.
      set (t := firstn (N.to_nat l) (data x)) in *.
      assert (Hlt : len t = l) by (unfold t; rewrite len_firstn; lia).
      assert (Hl16 : (length t <= 16)%nat) by (unfold len in Hlt; lia).
      apply wp_bind. eapply replace_inner_heap_wp; [rewrite Hh2; exact Hb|exact Hl|exact Hw|lia|].
      intros m3 He3 Hh3 Hn3. unfold lift. apply wp_ret. apply HQ.
      assert (He13 : same_env m m3) by (eapply same_env_trans; [exact He2|exact He3]).
      assert (Hh13 : heap m3 = upd (heap m) b (released x)) by (rewrite Hh3, Hh2; reflexivity).
      split.
      * apply (release_step_ok m own b l x (Inline (inline_new t)) m3 HM Hr0 Hc Hb Hl eq_refl);
          [intros h; apply shr_inline_ok; [exact Hv|exact Hl16]|exact He13|exact Hh13].
      * cbn [text_of]. rewrite Hb. apply inline_new_text; [exact Hv|exact Hl16].
      * intros Hx. discriminate Hx.
      * cbn [is_heap]. intros Hx. discriminate Hx.
      * intros _ _. cbn [repr_len]. fold nc. cbv zeta. split; [|split].
        -- intros _. cbn [is_heap is_static]. repeat split; lia.
        -- intros Hx. lia.
        -- intros Hx. lia.
      * intros _. cbn [repr_len cap_of]. rewrite max_inline_16. lia.
    + destruct (N.leb_spec (cap x) nc) as [Hnoop|Hshr].
      * (* nothing to give back *)
        apply wp_ret. apply HQ.
        apply (shrink_post_noop m own b l x minc m);
          [exact HM|exact Hr0|exact Hc|exact Hb|apply same_env_refl|reflexivity|reflexivity|exact Hbig|exact Hnoop].
      * apply wp_bind. eapply is_unique_wp; [exact Hb|exact Hl|lia|]. intros m1 u He1 Hh1 Hn1 Hu1 Huq. unfold lift.
        assert (Hb1 : nth_error (heap m1) b = Some x) by (rewrite Hh1; exact Hb).
        destruct u; [assert (Hu : count x = 1) by (apply Hu1; reflexivity)|].
        -- (* unique: realloc in place *)
           apply wp_bind. eapply heap_realloc_wp; [exact Hb1|exact Hl|exact Hw| | |].
           ++ intros Hbig2. unfold lift. apply wp_ret. apply HQ.
              apply shrink_post_fail; [exact HM|exact Hr0|exact Hc|exact He1|exact Hh1].
           ++ intros m2 He2 Hh2 Hn2. unfold lift. apply wp_ret. apply HQ.
              apply shrink_post_fail; [exact HM|exact Hr0|exact Hc| |].
              ** eapply same_env_trans; [exact He1|exact He2].
              ** rewrite Hh2. exact Hh1.
           ++ intros m2 He2 Hh2 Hn2 Hnc. unfold lift. apply wp_ret.
              assert (Hb2 : nth_error (heap m2) b = Some (resized x nc)).
              { rewrite Hh2, Hh1. apply nth_error_upd_eq. exact Hlt0. }
              destruct Hw as (W1 & W2 & W3).
              apply HQ. split.
              ** split.
                 --- eapply same_env_trans; [exact He1|exact He2].
                 --- rewrite Hh2, Hh1. eapply MI_upd; [exact HM|exact Hb| |].
                     +++ unfold resized. cbn [live]. unfold buf_wf, adj. cbn [asize cap data count names].
                         rewrite Nat.eqb_refl. cbn [one]. rewrite len_resize. repeat split; lia.
                     +++ intros b' Hne. unfold adj. cbn [names]. apply Nat.eqb_neq in Hne. rewrite Nat.eqb_sym, Hne.
                         cbn [one]. lia.
                 --- cbn [handle_ok]. exists (resized x nc). rewrite Hb2. unfold resized. cbn [live cap data].
                     rewrite len_resize. split; [reflexivity|]. split; [reflexivity|]. split; [exact Hlnc|].
                     split; [lia|]. rewrite firstn_resize; [exact Hv|lia|unfold len in *; lia].
                 --- rewrite Hh2, Hh1. apply frame_upd. unfold others. cbn [names]. intros b' Ho ->.
                     rewrite Nat.eqb_refl in Ho. cbn [one] in Ho. lia.
              ** cbn [text_of]. rewrite Hb2, Hb. unfold resized. cbn [data].
                 apply firstn_resize; [lia|unfold len in *; lia].
              ** intros Hx. discriminate Hx.
              ** cbn [is_heap]. intros Hx. discriminate Hx.
              ** intros _ _. cbn [repr_len]. fold nc. rewrite Hcapx. cbv zeta. split; [|split].
                 --- intros Hx. lia.
                 --- intros _ Hx. lia.
                 --- intros _ _. cbn [is_heap cap_of exclusive]. rewrite Hb2. unfold resized. cbn [cap].
                     split; [reflexivity|]. split; [reflexivity|]. split; [|lia].
                     eexists. split; [reflexivity|]. cbn [live count]. split; reflexivity.
              ** intros _. cbn [repr_len cap_of]. rewrite Hb2, Hb. unfold resized. cbn [cap]. lia.
        -- (* shared: copy out into a buffer of exactly nc, then release *)
           apply wp_bind. eapply read_heap_wp; [exact Hb1|exact Hl|lia|]. intros m2 He2 Hh2 Hn2. unfold lift.
           change (N.to_nat 0) with 0%nat. rewrite slice_0.
           set (t := firstn (N.to_nat l) (data x)) in *.
           assert (Hlt : len t = l) by (unfold t; rewrite len_firstn; lia).
           assert (He12 : same_env m m2) by (eapply same_env_trans; [exact He1|exact He2]).
           assert (Hh12 : heap m2 = heap m) by (rewrite Hh2; exact Hh1).
           apply wp_bind. apply heap_with_exact_capacity_wp.
           ++ rewrite Hlt. exact Hlnc.
           ++ intros Hbig2. unfold lift. apply wp_ret. apply HQ.
              apply shrink_post_fail; [exact HM|exact Hr0|exact Hc|exact He12|exact Hh12].
           ++ intros m3 He3 Hh3 Hn3. unfold lift. apply wp_ret. apply HQ.
              apply shrink_post_fail; [exact HM|exact Hr0|exact Hc| |].
              ** eapply same_env_trans; [exact He12|exact He3].
              ** rewrite Hh3. exact Hh12.
           ++ intros m3 He3 Hh3 Hn3 Hcap. unfold lift. rewrite Hlt.
              apply wp_bind. eapply replace_inner_heap_wp.
              { rewrite Hh3, Hh12. apply nth_error_app_l. exact Hb. }
              { exact Hl. } { exact Hw. } { lia. }
              intros m4 He4 Hh4 Hn4. unfold lift. apply wp_ret.
              rewrite Hh12.
              assert (G2 : same_env m m3) by (eapply same_env_trans; [exact He12|exact He3]).
              assert (G3 : heap m3 = heap m ++ [mkbuf nc (filled nc (firstn (N.to_nat l) (data x)))]).
              { rewrite Hh3, Hh12. reflexivity. }
              destruct (private_copy_ok m own b l x nc m3 m4 HM Hr0 Hc Hb Hl Hlnc Hcap G2 G3 He4 Hh4)
                as (S1 & S2 & S3 & S4).
              apply HQ. split.
              ** exact S1.
              ** rewrite S2. cbn [text_of]. rewrite Hb. reflexivity.
              ** intros Hx. discriminate Hx.
              ** cbn [is_heap]. intros Hx. discriminate Hx.
              ** intros _ _. cbn [repr_len]. fold nc. rewrite Hcapx, S4. cbv zeta. split; [|split].
                 --- intros Hx. lia.
                 --- intros _ Hx. lia.
                 --- intros _ _. cbn [is_heap]. split; [reflexivity|]. split; [reflexivity|]. split; [exact S3|lia].
              ** intros _. rewrite S4, Hcapx. cbn [repr_len]. lia.
  - (* static *)
    apply wp_ret. apply HQ.
    apply shrink_post_nonheap; [exact HM|exact Hr|exact Hc|apply same_env_refl|reflexivity|reflexivity|reflexivity].
Qed.

(* ---------- clear ---------- *)
Record clear_post (m : mem) (own : bufid -> N) (r : repr) (m' : mem) (r' : repr) : Prop := {
  cl_step : step_ok m own r m' r';
  cl_text : text_of m' r' = [];
  cl_nreq : nreq m' = nreq m;
  cl_static : is_static r = true -> r' = with_len r 0 /\ heap m' = heap m;
  cl_excl : xcl m r -> r' = with_len r 0 /\ heap m' = heap m;
}.

(* only the handle-local length is reset *)
Lemma clear_post_local m own r m' :
  MI (heap m) own -> handle_ok (heap m) (statics m) r -> counted own r ->
  same_env m m' -> heap m' = heap m -> nreq m' = nreq m ->
  clear_post m own r m' (with_len r 0).
Proof.
  intros HM Hr Hc He Hh Hn.
  assert (H0 : 0 <= repr_len r) by lia.
  assert (Hv0 : Valid (firstn (N.to_nat 0) (text_of m r))).
  { change (N.to_nat 0) with 0%nat. cbn [firstn]. apply valid_nil. }
  destruct (with_len_step m own r 0 m' HM Hr Hc H0 Hv0 He Hh) as (S1 & S2).
  split.
  - exact S1.
  - rewrite S2. change (N.to_nat 0) with 0%nat. reflexivity.
  - exact Hn.
  - intros _. split; [reflexivity|exact Hh].
  - intros _. split; [reflexivity|exact Hh].
Qed.

Lemma clear_wp m own r (Q : out repr -> mem -> Prop) :
  MI (heap m) own -> handle_ok (heap m) (statics m) r -> counted own r ->
  (forall m' r', clear_post m own r m' r' -> Q (OVal r') m') ->
  wp (clear r) Q m.
Proof.
  intros HM Hr Hc HQ.
  assert (H0M : 0 <= MAX_LEN) by (unfold MAX_LEN; lia).
  unfold clear. destruct r as [bs|b l|s l].
  - (* inline *)
    cbn [is_unique]. apply wp_bind. apply wp_ret. unfold lift.
    apply set_len_wp; [exact H0M|]. apply HQ.
    apply clear_post_local; [exact HM|exact Hr|exact Hc|apply same_env_refl|reflexivity|reflexivity].
  - (* heap *)
    pose proof Hr as Hr0. destruct Hr as (x & Hb & Hl & Hlc & Hd & Hv).
    destruct (MI_lookup _ _ _ _ HM Hb Hl) as (Hw & Hcx & Hox).
    cbn [is_unique]. apply wp_bind. eapply is_unique_wp; [exact Hb|exact Hl|lia|]. intros m1 u He1 Hh1 Hn1 Hu1 Huq. unfold lift.
    destruct u; [assert (Hu : count x = 1) by (apply Hu1; reflexivity)|].
    + (* unique: keep the buffer *)
      apply set_len_wp; [exact H0M|]. apply HQ.
      apply clear_post_local; [exact HM|exact Hr0|exact Hc|exact He1|exact Hh1|exact Hn1].
    + (* shared: drop the reference, become the empty inline string *)
      eapply replace_inner_heap_wp; [rewrite Hh1; exact Hb|exact Hl|exact Hw|lia|].
      intros m2 He2 Hh2 Hn2. apply HQ.
      assert (He12 : same_env m m2) by (eapply same_env_trans; [exact He1|exact He2]).
      assert (Hh12 : heap m2 = upd (heap m) b (released x)) by (rewrite Hh2, Hh1; reflexivity).
      split.
      * apply (release_step_ok m own b l x repr_new m2 HM Hr0 Hc Hb Hl eq_refl);
          [intros h; apply shr_new_ok|exact He12|exact Hh12].
      * apply shr_new_text.
      * lia.
      * cbn [is_static]. intros Hx. discriminate Hx.
      * intros (Hq & y & Hy & _ & Hy1). rewrite Hb in Hy. injection Hy as <-.
        specialize (Huq Hq). rewrite Hy1 in Huq. discriminate.
  - (* static *)
    cbn [is_unique]. apply wp_bind. apply wp_ret. unfold lift.
    apply set_len_wp; [exact H0M|]. apply HQ.
    apply clear_post_local; [exact HM|exact Hr|exact Hc|apply same_env_refl|reflexivity|reflexivity].
Qed.

Print Assumptions shrink_to_wp.
Print Assumptions clear_wp.
