(* Spec.v — std::string::String as a function on byte lists: the abstract specification that LeanString refines.
   Short on purpose.  It has no allocation failures; every other outcome (returned chars, index panics, callback
   panics, fmt errors) is what String does.  Validated against real Strings by the harness (monitors), not proved. *)
From Coq Require Import ZArith.
From LS Require Import Base Utf8 Impl NumModel Exec Specs2 SpecsRetain Specs3.
Open Scope N_scope.

Definition sstate := list (option (list N)).
Definition sget (p : sstate) (i : nat) : option (list N) :=
  match nth_error p i with Some (Some t) => Some t | _ => None end.

(* in-place operation on slot i *)
Definition son (p : sstate) (i : nat) (f : list N -> list N * outcome) : sstate * outcome :=
  match sget p i with
  | None => (p, Skip)
  | Some t => let '(t', o) := f t in (upd p i (Some t'), o)
  end.

Definition spec_exec (st : list (list N)) (p : sstate) (o : op) : sstate * outcome :=
  match o with
  | ONew => (p ++ [Some []], OkUnit)
  | OFromStr _ t => (p ++ [Some t], OkUnit)
  | OFromStatic s =>
      match nth_error st s with
      | Some t => (p ++ [Some t], OkUnit)
      | None => (p ++ [Some []], OkUnit)
      end
  | OWithCapacity _ _ => (p ++ [Some []], OkUnit)
  | OFromChar c => (p ++ [Some (encode_cp c)], OkUnit)
  | OFromBool b => (p ++ [Some (if b then [116;114;117;101] else [102;97;108;115;101])], OkUnit)
  | OFromInt _ _ z => (p ++ [Some (dec z)], OkUnit)
  | OClone i => match sget p i with Some t => (p ++ [Some t], OkUnit) | None => (p ++ [None], Skip) end
  | OCollectChars _ pa cs =>
      match first_stop None pa 0 (length cs) with
      | Some (_, o) => (p ++ [None], o)
      | None => (p ++ [Some (concat (map encode_cp cs))], OkUnit)
      end
  | OCollectStrs pa ss =>
      match first_stop None pa 0 (length ss) with
      | Some (_, o) => (p ++ [None], o)
      | None => (p ++ [Some (concat ss)], OkUnit)
      end
  | ODisplay _ ea pa ps =>
      match first_stop ea pa 0 (length ps) with
      | Some (_, o) => (p ++ [None], o)
      | None => (p ++ [Some (concat ps)], OkUnit)
      end
  | OCloneFrom i j =>
      match sget p j with
      | None => (p, Skip)
      | Some tj => if Nat.eqb i j then (p, Skip) else son p i (fun _ => (tj, OkUnit))
      end
  | ODrop i => match sget p i with Some _ => (upd p i None, OkUnit) | None => (p, Skip) end
  | OPush _ i c => son p i (fun t => (t ++ encode_cp c, OkUnit))
  | OPushStr _ i s => son p i (fun t => (t ++ s, OkUnit))
  | OAdd i s => son p i (fun t => (t ++ s, OkUnit))
  | OPop _ i => son p i (fun t => match t with
                                  | [] => (t, OkNone)
                                  | _ => (pop_text t, OkChar (decode_cp (last_char t)))
                                  end)
  | ORemove _ i idx =>
      son p i (fun t => if remove_ok_idx t idx
                        then (remove_text t idx, OkChar (decode_cp (first_char (skipn (N.to_nat idx) t))))
                        else (t, PanicIndex))
  | OInsert _ i idx c =>
      son p i (fun t => if is_char_boundary t idx then (insert_text t idx (encode_cp c), OkUnit) else (t, PanicIndex))
  | OInsertStr _ i idx s =>
      son p i (fun t => if is_char_boundary t idx then (insert_text t idx s, OkUnit) else (t, PanicIndex))
  | OTruncate _ i n =>
      son p i (fun t => if len t <=? n then (t, OkUnit)
                        else if is_char_boundary t n then (firstn (N.to_nat n) t, OkUnit) else (t, PanicIndex))
  | OClear i => son p i (fun _ => ([], OkUnit))
  | ORetain _ i pa bits =>
      son p i (fun t => (retain_text t (retain_pred pa bits),
                         if retain_done t (retain_pred pa bits) then OkUnit else PanicUser))
  | OReserve _ i _ => son p i (fun t => (t, OkUnit))
  | OShrinkTo _ i _ => son p i (fun t => (t, OkUnit))
  | OExtendChars i _ pa cs =>
      son p i (fun t => match first_stop None pa 0 (length cs) with
                        | Some (n, o) => (t ++ concat (firstn n (map encode_cp cs)), o)
                        | None => (t ++ concat (map encode_cp cs), OkUnit)
                        end)
  | OExtendStrs i pa ss =>
      son p i (fun t => match first_stop None pa 0 (length ss) with
                        | Some (n, o) => (t ++ concat (firstn n ss), o)
                        | None => (t ++ concat ss, OkUnit)
                        end)
  | OWriteFmt i ea pa ps =>
      son p i (fun t => match first_stop ea pa 0 (length ps) with
                        | Some (n, o) => (t ++ concat (firstn n ps), o)
                        | None => (t ++ concat ps, OkUnit)
                        end)
  end.

(* the outcomes that only exist because memory is finite *)
Definition alloc_failure (o : outcome) : bool :=
  match o with ErrReserve | PanicReserve | PanicTooLong => true | _ => false end.
