(* ProtoOps.v — every modelled mutator and reader of repr.rs respects the reference-count protocol (Proto.okc):
   starting from a handle the thread holds, with nothing owed, each of them only performs events whose protocol
   precondition holds, and ends holding its result handle with nothing owed.  These are the building blocks of the
   typed thread programs of Compose.v. *)
From Coq Require Import Lia Arith List Bool NArith.
From LS Require Import Base Utf8 Cmd Impl Proto.
From LSGen Require Import GenSrc.
Import ListNotations.
Open Scope N_scope.

(* same buffer (or both bufferless) *)
Definition sim (r r' : repr) : Prop :=
  match r, r' with
  | Heap b _, Heap b' _ => b = b'
  | Inline _, Inline _ => True
  | Static _ _, Static _ _ => True
  | _, _ => False
  end.
Lemma sim_refl r : sim r r. Proof. destruct r; cbn; auto. Qed.
Lemma sim_trans a b c : sim a b -> sim b c -> sim a c.
Proof. destruct a, b, c; cbn; intros; subst; auto; contradiction. Qed.
Lemma holds_sim g r r' : sim r r' -> holds g r -> holds g r'.
Proof. destruct r, r'; cbn; intros; subst; auto; contradiction. Qed.
Lemma holds_excl_sim g r r' : sim r r' -> holds_excl g r -> holds_excl g r'.
Proof. destruct r, r'; cbn; intros; subst; auto; contradiction. Qed.
Lemma holds_of_excl g r : holds_excl g r -> holds g r.
Proof. destruct r; cbn; auto. intros (H1 & H2 & _). auto. Qed.

Lemma nm_sim r r' b : sim r r' -> nm r b = nm r' b.
Proof. destruct r, r'; cbn; intros; subst; auto; contradiction. Qed.
Lemma cons_sim g r g' r1 r2 : cons g r g' r1 -> sim r1 r2 -> cons g r g' r2.
Proof. intros H Hs b. rewrite <- (nm_sim r1 r2 b Hs). apply H. Qed.
Lemma cons_refl g r : cons g r g r.
Proof. intros b. reflexivity. Qed.

(* the thread ends holding the result handle, owes nothing, and its reference counts moved exactly with the handle *)
Definition post {A} (g : ghost) (r : repr) (f : A -> repr) : A -> ghost -> Prop :=
  fun p g' => settled g' /\ holds g' (f p) /\ cons g r g' (f p).

Lemma ok_write_at r off bs g (Q : repr -> ghost -> Prop) :
  holds_excl g r -> (forall r', sim r r' -> Q r' g) -> okc (write_at r off bs) g Q.
Proof.
  intros He HQ. destruct r as [d|b l|s l]; cbn [write_at holds_excl] in *; [|destruct He as (_ & _ & He)|contradiction].
  - cbn [okc]. apply HQ. exact I.
  - apply okc_bind. cbn [write okc]. split; [exact He|]. apply HQ. reflexivity.
Qed.
Lemma ok_move_at r x y n g (Q : repr -> ghost -> Prop) :
  holds_excl g r -> (forall r', sim r r' -> Q r' g) -> okc (move_at r x y n) g Q.
Proof.
  intros He HQ. destruct r as [d|b l|s l]; cbn [move_at holds_excl] in *; [|destruct He as (_ & _ & He)|contradiction].
  - cbn [okc]. apply HQ. exact I.
  - apply okc_bind. cbn [move okc]. split; [exact He|]. apply HQ. reflexivity.
Qed.
Lemma ok_heap_set_len b n g (Q : repr -> ghost -> Prop) :
  (forall l, Q (Heap b l) g) -> okc (heap_set_len b n) g Q.
Proof. intros HQ. unfold heap_set_len. destruct (text_len_new n); cbn [okc]; auto. Qed.
Lemma ok_set_len r n g (Q : repr -> ghost -> Prop) :
  (forall r', sim r r' -> Q r' g) -> okc (set_len r n) g Q.
Proof.
  intros HQ. destruct r as [d|b l|s l]; cbn [set_len].
  - cbn [okc]. apply HQ. exact I.
  - apply ok_heap_set_len. intros l'. apply HQ. reflexivity.
  - cbn [okc]. apply HQ. exact I.
Qed.
Lemma ok_truncate_unchecked r n g (Q : repr -> ghost -> Prop) :
  (forall r', sim r r' -> Q r' g) -> okc (truncate_unchecked r n) g Q.
Proof.
  intros HQ. destruct r as [d|b l|s l]; cbn [truncate_unchecked].
  - cbn [okc]. apply HQ. exact I.
  - apply ok_heap_set_len. intros l'. apply HQ. reflexivity.
  - cbn [okc]. apply HQ. exact I.
Qed.
Lemma ok_as_bytes r g (Q : list N -> ghost -> Prop) :
  holds g r -> (forall t, Q t g) -> okc (as_bytes r) g Q.
Proof.
  intros Hh HQ. destruct r as [d|b l|s l]; cbn [as_bytes holds] in *.
  - cbn [okc]. apply HQ.
  - destruct Hh as (H1 & _). cbn [read okc]. split; [left; exact H1|]. intros bs. cbn [okc]. apply HQ.
  - cbn [read okc]. intros bs. cbn [okc]. apply HQ.
Qed.

(* ---- push_str ---- *)
Ltac done_same Hs Hh := cbn [okc fst]; split; [exact Hs|]; split; [exact Hh|apply cons_refl].

Lemma ok_push_str r s g : holds g r -> settled g -> okc (push_str r s) g (post g r fst).
Proof.
  intros Hh Hs. unfold push_str, post. destruct s as [|c0 s0]; [done_same Hs Hh|].
  apply okc_bind. eapply okc_mono; [apply ok_reserve; assumption|]. intros [r1 ok] g1 (S1 & H1 & E1 & C1). cbn [fst snd] in *.
  destruct ok; cbn [negb]; [|cbn [okc fst]; auto]. specialize (E1 eq_refl).
  apply okc_bind. apply ok_write_at; [exact E1|]. intros r2 Hs2.
  apply okc_bind. apply ok_set_len. intros r3 Hs3. cbn [okc fst]. split; [exact S1|].
  split; [eapply holds_sim; [exact Hs3|]; eapply holds_sim; [exact Hs2|exact H1]|].
  eapply cons_sim; [|exact Hs3]. eapply cons_sim; [exact C1|exact Hs2].
Qed.

(* ---- pop / truncate ---- *)
Lemma ok_pop r g : holds g r -> settled g -> okc (pop r) g (post g r fst).
Proof.
  intros Hh Hs. unfold pop, post. apply okc_bind. apply ok_as_bytes; [exact Hh|]. intros t.
  destruct t as [|c0 t0]; [done_same Hs Hh|].
  apply okc_bind. apply ok_truncate_unchecked. intros r' Hs'. cbn [okc fst]. split; [exact Hs|].
  split; [eapply holds_sim; eauto|]. eapply cons_sim; [apply cons_refl|exact Hs'].
Qed.
Lemma ok_truncate r n g : holds g r -> settled g -> okc (truncate r n) g (post g r fst).
Proof.
  intros Hh Hs. unfold truncate, post. destruct (cond_truncate_noop n (repr_len r)); [done_same Hs Hh|].
  apply okc_bind. apply ok_as_bytes; [exact Hh|]. intros t.
  destruct (negb (is_char_boundary t n)); [done_same Hs Hh|].
  apply okc_bind. apply ok_truncate_unchecked. intros r' Hs'. cbn [okc fst]. split; [exact Hs|].
  split; [eapply holds_sim; eauto|]. eapply cons_sim; [apply cons_refl|exact Hs'].
Qed.

(* ---- remove ---- *)
Lemma ok_remove r idx g : holds g r -> settled g -> okc (remove r idx) g (post g r fst).
Proof.
  intros Hh Hs. unfold remove, post. apply okc_bind. apply ok_as_bytes; [exact Hh|]. intros t.
  destruct (negb (is_char_boundary t idx)); [done_same Hs Hh|].
  destruct (negb (idx <? repr_len r)); [done_same Hs Hh|].
  apply okc_bind. eapply okc_mono; [apply ok_ensure_modifiable; assumption|]. intros [r1 ok] g1 (S1 & H1 & E1 & C1). cbn [fst snd] in *.
  destruct ok; cbn [negb]; [|cbn [okc fst]; auto]. specialize (E1 eq_refl).
  apply okc_bind. apply ok_move_at; [exact E1|]. intros r2 Hs2.
  apply okc_bind. apply ok_set_len. intros r3 Hs3. cbn [okc fst]. split; [exact S1|].
  split; [eapply holds_sim; [exact Hs3|]; eapply holds_sim; [exact Hs2|exact H1]|].
  eapply cons_sim; [|exact Hs3]. eapply cons_sim; [exact C1|exact Hs2].
Qed.

(* ---- insert_str ---- *)
Lemma ok_insert_str r idx s g : holds g r -> settled g -> okc (insert_str r idx s) g (post g r fst).
Proof.
  intros Hh Hs. unfold insert_str, post. apply okc_bind. apply ok_as_bytes; [exact Hh|]. intros t.
  destruct (negb (is_char_boundary t idx)); [done_same Hs Hh|].
  destruct (checked_add (repr_len r) (len s)) as [nl|]; [|done_same Hs Hh].
  apply okc_bind. eapply okc_mono; [apply ok_reserve; assumption|]. intros [r1 ok] g1 (S1 & H1 & E1 & C1). cbn [fst snd] in *.
  destruct ok; cbn [negb]; [|cbn [okc fst]; auto]. specialize (E1 eq_refl).
  apply okc_bind. apply ok_move_at; [exact E1|]. intros r2 Hs2.
  apply okc_bind. apply ok_write_at; [eapply holds_excl_sim; eauto|]. intros r3 Hs3.
  apply okc_bind. apply ok_set_len. intros r4 Hs4. cbn [okc fst]. split; [exact S1|].
  split; [eapply holds_sim; [exact Hs4|]; eapply holds_sim; [exact Hs3|]; eapply holds_sim; [exact Hs2|exact H1]|].
  eapply cons_sim; [|exact Hs4]. eapply cons_sim; [|exact Hs3]. eapply cons_sim; [exact C1|exact Hs2].
Qed.

(* ---- retain ---- *)
Lemma ok_retain_loop chars : forall r k pred dst g (Q : repr * N * bool -> ghost -> Prop),
  holds_excl g r -> (forall r' d c, sim r r' -> Q (r', d, c) g) -> okc (retain_loop r chars k pred dst) g Q.
Proof.
  induction chars as [|ch rest IH]; intros r k pred dst g Q He HQ; cbn [retain_loop].
  - cbn [okc]. apply HQ. apply sim_refl.
  - destruct (pred k) as [[|]|].
    + apply okc_bind. apply ok_write_at; [exact He|]. intros r' Hs'. apply IH; [eapply holds_excl_sim; eauto|].
      intros r'' d c Hs''. apply HQ. eapply sim_trans; eauto.
    + apply IH; auto.
    + cbn [okc]. apply HQ. apply sim_refl.
Qed.
Lemma ok_retain r pred g : holds g r -> settled g -> okc (retain r pred) g (post g r fst).
Proof.
  intros Hh Hs. unfold retain, post.
  apply okc_bind. eapply okc_mono; [apply ok_ensure_modifiable; assumption|]. intros [r1 ok] g1 (S1 & H1 & E1 & C1). cbn [fst snd] in *.
  destruct ok; cbn [negb]; [|cbn [okc fst]; auto]. specialize (E1 eq_refl).
  apply okc_bind. apply ok_as_bytes; [exact H1|]. intros t.
  apply okc_bind. apply ok_retain_loop; [exact E1|]. intros r2 d c Hs2.
  apply okc_bind. apply ok_set_len. intros r3 Hs3. cbn [okc fst]. split; [exact S1|].
  split; [eapply holds_sim; [exact Hs3|]; eapply holds_sim; [exact Hs2|exact H1]|].
  eapply cons_sim; [|exact Hs3]. eapply cons_sim; [exact C1|exact Hs2].
Qed.

(* ---- drop and clear ---- *)
Lemma ok_drop r g : holds g r -> settled g ->
  okc (replace_inner r repr_new) g (fun r' g' => settled g' /\ holds g' r' /\ cons g r g' r').
Proof.
  intros Hh Hs. eapply okc_mono; [apply ok_replace_inner; assumption|]. intros r' g' (-> & S' & Hm).
  split; [exact S'|]. split; [exact I|]. intros x. pose proof (released_refs _ _ _ Hh Hm x) as E. unfold repr_new. cbn [nm] in *. lia.
Qed.
Lemma ok_clear r g : holds g r -> settled g -> okc (clear r) g (fun r' g' => settled g' /\ holds g' r' /\ cons g r g' r').
Proof.
  intros Hh Hs. unfold clear. apply okc_bind. destruct r as [d|b l|s l]; cbn [is_unique].
  - cbn [okc]. apply ok_set_len. intros r' Hs'. split; [exact Hs|]. split; [eapply holds_sim; eauto|].
    eapply cons_sim; [apply cons_refl|exact Hs'].
  - pose proof Hh as (H1 & H2). unfold heap_is_unique. apply okc_bind. cbn [load okc]. split; [exact H1|]. split; [reflexivity|].
    intros v. cbn [okc]. destruct (v =? 1).
    + apply ok_heap_set_len. intros l'. split; [exact Hs|]. split; [cbn [holds g_refs g_free]; auto|].
      intros x. cbn [g_refs nm]. reflexivity.
    + set (g1 := {| g_refs := g_refs g; g_excl := setf (g_excl g) b (g_excl g b || false); g_free := g_free g; g_fen := g_fen g; g_bor := g_bor g |}).
      assert (Hh1 : holds g1 (Heap b l)) by (cbn [holds g1 g_refs g_free]; auto).
      eapply okc_mono; [apply (ok_replace_inner (Heap b l) repr_new g1); [exact Hh1|exact Hs]|].
      intros r' g' (-> & S' & Hm). split; [exact S'|]. split; [exact I|].
      intros x. pose proof (released_refs _ _ _ Hh1 Hm x) as E. cbn [g1 g_refs] in E. unfold repr_new. cbn [nm] in *. lia.
  - cbn [okc]. split; [exact Hs|]. split; [exact I|intros x; reflexivity].
Qed.

(* ---- shrink_to ---- *)
Lemma ok_heap_with_capacity c g (Q : option repr -> ghost -> Prop) :
  Q None g ->
  (forall b l, g_refs g b = 0%nat -> g_excl g b = false -> g_free g b = false ->
     Q (Some (Heap b l)) {| g_refs := setf (g_refs g) b 1%nat; g_excl := setf (g_excl g) b true; g_free := g_free g; g_fen := g_fen g; g_bor := g_bor g |}) ->
  okc (heap_with_capacity c) g Q.
Proof.
  intros Hn Hs. unfold heap_with_capacity. destruct (text_len_new 0) as [l|]; [|exact Hn].
  destruct (capacity_new c) as [c'|]; [|exact Hn]. apply okc_bind. apply ok_allocate_ptr; [exact Hn|].
  intros b H1 H2 H3. cbn [okc]. apply Hs; auto.
Qed.
Lemma ok_heap_with_exact_capacity t c g (Q : option repr -> ghost -> Prop) :
  Q None g ->
  (forall b l, g_refs g b = 0%nat -> g_excl g b = false -> g_free g b = false ->
     Q (Some (Heap b l)) {| g_refs := setf (g_refs g) b 1%nat; g_excl := setf (g_excl g) b true; g_free := g_free g; g_fen := g_fen g; g_bor := g_bor g |}) ->
  okc (heap_with_exact_capacity t c) g Q.
Proof.
  intros Hn Hs. unfold heap_with_exact_capacity. apply okc_bind. apply ok_heap_with_capacity; [exact Hn|].
  intros b l H1 H2 H3. apply okc_bind. cbn [write okc]. cbn [g_excl]. unfold setf at 1. rewrite Nat.eqb_refl.
  split; [reflexivity|]. apply okc_bind. apply ok_heap_set_len. intros l'. cbn [okc]. apply Hs; auto.
Qed.

Lemma ok_shrink_to r m g : holds g r -> settled g -> okc (shrink_to r m) g (post g r fst).
Proof.
  intros Hh Hs. unfold post. destruct r as [d|b l|s l]; cbn [shrink_to]; try (cbn [okc fst]; split; [exact Hs|]; split; [exact I|apply cons_refl]).
  pose proof Hh as (H1 & H2). apply okc_bind. cbn [hdr_cap okc]. split; [left; exact H1|]. intros oc. cbn [okc].
  destruct (cond_shrink_inline _).
  { apply okc_bind. cbn [read okc]. split; [left; exact H1|]. intros t. cbn [okc]. apply okc_bind.
    eapply okc_mono; [apply ok_replace_inner; [exact Hh|exact Hs]|].
    intros r' g' (-> & S' & Hm). cbn [okc fst]. split; [exact S'|]. split; [exact I|].
    intros x. pose proof (released_refs _ _ _ Hh Hm x). cbn [nm] in *. lia. }
  destruct (cond_shrink_noop _ _); [cbn [okc fst]; split; [exact Hs|]; split; [exact Hh|apply cons_refl]|].
  apply okc_bind. unfold heap_is_unique. apply okc_bind. cbn [load okc]. split; [exact H1|]. split; [reflexivity|].
  intros v. cbn [okc]. destruct (N.eqb_spec v 1) as [->|Hne].
  - apply okc_bind. apply ok_heap_realloc; [cbn [g_excl]; unfold setf; rewrite Nat.eqb_refl; apply orb_true_r|].
    intros ok. cbn [okc fst holds g_refs g_free]. split; [exact Hs|]. split; [auto|]. intros x. cbn [g_refs]. reflexivity.
  - set (g1 := {| g_refs := g_refs g; g_excl := setf (g_excl g) b (g_excl g b || false); g_free := g_free g; g_fen := g_fen g; g_bor := g_bor g |}).
    apply okc_bind. cbn [read okc]. split; [left; exact H1|]. intros t. cbn [okc].
    apply okc_bind. apply ok_heap_with_exact_capacity.
    + cbn [okc fst holds]. split; [exact Hs|]. split; [split; [exact H1|exact H2]|]. intros x. cbn [g1 g_refs]. reflexivity.
    + intros b' l' N1 N2 N3.
      set (g2 := {| g_refs := setf (g_refs g1) b' 1%nat; g_excl := setf (g_excl g1) b' true; g_free := g_free g1; g_fen := g_fen g1; g_bor := g_bor g1 |}).
      assert (Hbb : b' <> b) by (intros ->; cbn [g1 g_refs] in N1; lia).
      assert (Hh2 : holds g2 (Heap b l)).
      { cbn [holds]. unfold g2, g1. cbn [g_refs g_free]. unfold setf. apply Nat.eqb_neq in Hbb. rewrite Nat.eqb_sym, Hbb. auto. }
      apply okc_bind. eapply okc_mono.
      * apply (ok_replace_inner (Heap b l) (Heap b' l') g2); [exact Hh2|exact Hs].
      * intros r' g' (-> & S' & Hm). pose proof (released_refs _ _ _ Hh2 Hm) as Hrel. destruct Hm as (_ & Same). cbn [okc fst holds].
        destruct (Same b' Hbb) as (E1 & E2 & E3). unfold g2, g1 in E1. cbn [g_refs] in E1. unfold setf in E1. rewrite Nat.eqb_refl in E1.
        split; [exact S'|]. split; [split; [lia|apply S']|].
        intros x. specialize (Hrel x). unfold g2, g1 in Hrel. cbn [g_refs nm] in Hrel |- *. unfold setf in Hrel.
        cbn [g1 g_refs] in N1.
        repeat match goal with |- context [Nat.eqb ?a ?c] => destruct (Nat.eqb_spec a c); subst end;
        repeat match goal with H : context [Nat.eqb ?a ?c] |- _ => destruct (Nat.eqb_spec a c); subst end; try lia; try congruence.
Qed.

(* ---- clone ---- *)
Lemma ok_clone' r g : holds g r -> settled g ->
  okc (make_shallow_clone r) g (fun r' g' => settled g' /\ holds g' r /\ holds g' r' /\ sim r r'
        /\ forall x, g_refs g' x = (g_refs g x + nm r x)%nat).
Proof.
  intros Hh Hs. destruct r as [d|b l|s l]; cbn [make_shallow_clone holds] in *;
    try (cbn [okc sim nm]; split; [exact Hs|]; split; [exact I|]; split; [exact I|]; split; [exact I|]; intros x; lia).
  destruct Hh as (H1 & H2). apply okc_bind. cbn [rmw okc]. split; [left; exact H1|]. intros v. cbn [okc].
  cbn [holds g_refs g_free sim nm]. unfold setf. rewrite Nat.eqb_refl.
  split; [exact Hs|]. split; [split; [lia|exact H2]|]. split; [split; [lia|exact H2]|]. split; [reflexivity|].
  intros x. rewrite (Nat.eqb_sym x b). destruct (Nat.eqb_spec b x) as [->|]; lia.
Qed.
