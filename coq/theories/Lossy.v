(* Lossy.v — the decoders behind from_utf8_lossy and from_utf16(_lossy), modelled on bytes / code units:
   next_char is one step of core::str::Utf8Chunks (a complete well-formed scalar, or a maximal ill-formed subpart:
   the lead byte and the continuation bytes accepted so far); lossy replaces every ill-formed subpart by U+FFFD;
   chunks_of groups the steps into the (valid piece, invalid-follows) chunks the crate's loop consumes.
   utf16_decode is char::decode_utf16: surrogate pairs combine, lone surrogates are errors.
   Both are run against std on the sweeps of the C16 check (extraction + `driver --utf8`). *)
From Coq Require Import Lia Arith ZArith List Bool.
From LS Require Import Base Utf8 Utf8Spec Utf8Facts.
Import ListNotations.
Open Scope N_scope.

Definition cont (b : N) : bool := in_range 128 191 b.
Definition ok2_3 (a b : N) : bool :=
  ((a =? 224) && in_range 160 191 b) || ((in_range 225 236 a || in_range 238 239 a) && in_range 128 191 b)
  || ((a =? 237) && in_range 128 159 b).
Definition ok2_4 (a b : N) : bool :=
  ((a =? 240) && in_range 144 191 b) || (in_range 241 243 a && in_range 128 191 b) || ((a =? 244) && in_range 128 143 b).

(* (bytes consumed, well-formed?, rest) *)
Definition next_char (t : list N) : option (list N * bool * list N) :=
  match t with
  | [] => None
  | a :: r =>
      if a <? 128 then Some ([a], true, r)
      else if in_range 194 223 a then
        match r with
        | b :: r1 => if cont b then Some ([a; b], true, r1) else Some ([a], false, r)
        | [] => Some ([a], false, r)
        end
      else if in_range 224 239 a then
        match r with
        | b :: r1 =>
            if ok2_3 a b then
              match r1 with
              | c :: r2 => if cont c then Some ([a; b; c], true, r2) else Some ([a; b], false, r1)
              | [] => Some ([a; b], false, r1)
              end
            else Some ([a], false, r)
        | [] => Some ([a], false, r)
        end
      else if in_range 240 244 a then
        match r with
        | b :: r1 =>
            if ok2_4 a b then
              match r1 with
              | c :: r2 =>
                  if cont c then
                    match r2 with
                    | d :: r3 => if cont d then Some ([a; b; c; d], true, r3) else Some ([a; b; c], false, r2)
                    | [] => Some ([a; b; c], false, r2)
                    end
                  else Some ([a; b], false, r1)
              | [] => Some ([a; b], false, r1)
              end
            else Some ([a], false, r)
        | [] => Some ([a], false, r)
        end
      else Some ([a], false, r)
  end.

Definition REPL : list N := [239; 191; 189].     (* U+FFFD *)

Fixpoint lossy_fuel (f : nat) (t : list N) : list N :=
  match f with
  | O => []
  | S f' =>
      match next_char t with
      | None => []
      | Some (c, ok, r) => (if ok then c else REPL) ++ lossy_fuel f' r
      end
  end.
Definition lossy (t : list N) : list N := lossy_fuel (length t) t.

(* the chunks of Utf8Chunks: (valid piece, is it followed by an ill-formed subpart) *)
Fixpoint chunks_fuel (f : nat) (t acc : list N) : list (list N * bool) :=
  match f with
  | O => match acc with [] => [] | _ => [(acc, false)] end
  | S f' =>
      match next_char t with
      | None => match acc with [] => [] | _ => [(acc, false)] end
      | Some (c, true, r) => chunks_fuel f' r (acc ++ c)
      | Some (c, false, r) => (acc, true) :: chunks_fuel f' r []
      end
  end.
Definition chunks_of (t : list N) : list (list N * bool) := chunks_fuel (length t) t [].
Definition chunks_text (cs : list (list N * bool)) : list N :=
  concat (map (fun c : list N * bool => fst c ++ (if snd c then REPL else [])) cs).

(* ---------- facts about one step ---------- *)
Lemma next_char_split t c ok r : next_char t = Some (c, ok, r) ->
  c ++ r = t /\ c <> [] /\ (ok = true -> char_ok c = true) /\ (length c <= 4)%nat.
Proof.
  unfold next_char. destruct t as [|a t]; [discriminate|].
  destruct (a <? 128) eqn:E1.
  { intros [= <- <- <-]. cbn [char_ok]. repeat split; auto; try discriminate; cbn; lia. }
  destruct (in_range 194 223 a) eqn:E2.
  { destruct t as [|b t]; [intros [= <- <- <-]; repeat split; auto; try discriminate; cbn; lia|].
    destruct (cont b) eqn:E3; intros [= <- <- <-]; repeat split; auto; try discriminate; try (cbn; lia).
    intros _. cbn [char_ok]. rewrite E2. exact E3. }
  destruct (in_range 224 239 a) eqn:E4.
  { destruct t as [|b t]; [intros [= <- <- <-]; repeat split; auto; try discriminate; cbn; lia|].
    destruct (ok2_3 a b) eqn:E5; [|intros [= <- <- <-]; repeat split; auto; try discriminate; cbn; lia].
    destruct t as [|c0 t]; [intros [= <- <- <-]; repeat split; auto; try discriminate; cbn; lia|].
    destruct (cont c0) eqn:E6; intros [= <- <- <-]; repeat split; auto; try discriminate; try (cbn; lia).
    intros _. cbn [char_ok]. unfold ok2_3 in E5. rewrite E5. exact E6. }
  destruct (in_range 240 244 a) eqn:E7.
  { destruct t as [|b t]; [intros [= <- <- <-]; repeat split; auto; try discriminate; cbn; lia|].
    destruct (ok2_4 a b) eqn:E5; [|intros [= <- <- <-]; repeat split; auto; try discriminate; cbn; lia].
    destruct t as [|c0 t]; [intros [= <- <- <-]; repeat split; auto; try discriminate; cbn; lia|].
    destruct (cont c0) eqn:E6; [|intros [= <- <- <-]; repeat split; auto; try discriminate; cbn; lia].
    destruct t as [|d t]; [intros [= <- <- <-]; repeat split; auto; try discriminate; cbn; lia|].
    destruct (cont d) eqn:E8; intros [= <- <- <-]; repeat split; auto; try discriminate; try (cbn; lia).
    intros _. cbn [char_ok]. unfold ok2_4 in E5. rewrite E5. unfold cont in E6, E8. rewrite E6, E8. reflexivity. }
  intros [= <- <- <-]. repeat split; auto; try discriminate; cbn; lia.
Qed.

Ltac b2p :=
  repeat match goal with
  | H : (_ && _) = true |- _ => apply andb_true_iff in H; destruct H
  | H : (_ || _) = true |- _ => apply orb_true_iff in H; destruct H
  | H : (_ <=? _) = true |- _ => apply N.leb_le in H
  | H : (_ <? _) = true |- _ => apply N.ltb_lt in H
  | H : (_ =? _) = true |- _ => apply N.eqb_eq in H
  end.

(* a well-formed scalar at the head is taken whole *)
Lemma next_char_ok c r : char_ok c = true -> next_char (c ++ r) = Some (c, true, r).
Proof.
  intros H. destruct c as [|a [|b [|c0 [|d [|e c]]]]]; cbn [char_ok] in H; try discriminate; cbn [app next_char].
  - rewrite H. reflexivity.
  - apply andb_true_iff in H. destruct H as (Ha & Hb).
    assert (a <? 128 = false) as -> by (unfold in_range in Ha; b2p; apply N.ltb_ge; lia).
    rewrite Ha. unfold cont. rewrite Hb. reflexivity.
  - apply andb_true_iff in H. destruct H as (Hab & Hc).
    assert (a <? 128 = false) as -> by (unfold in_range in Hab; b2p; apply N.ltb_ge; lia).
    assert (in_range 194 223 a = false) as ->.
    { unfold in_range in *. b2p; apply andb_false_iff; right; apply N.leb_gt; lia. }
    assert (in_range 224 239 a = true) as ->.
    { unfold in_range in *. b2p; apply andb_true_iff; split; apply N.leb_le; lia. }
    unfold ok2_3. rewrite Hab. unfold cont. rewrite Hc. reflexivity.
  - apply andb_true_iff in H. destruct H as (H & Hd). apply andb_true_iff in H. destruct H as (Hab & Hc).
    assert (a <? 128 = false) as -> by (unfold in_range in Hab; b2p; apply N.ltb_ge; lia).
    assert (in_range 194 223 a = false) as ->.
    { unfold in_range in *. b2p; apply andb_false_iff; right; apply N.leb_gt; lia. }
    assert (in_range 224 239 a = false) as ->.
    { unfold in_range in *. b2p; apply andb_false_iff; right; apply N.leb_gt; lia. }
    assert (in_range 240 244 a = true) as ->.
    { unfold in_range in *. b2p; apply andb_true_iff; split; apply N.leb_le; lia. }
    unfold ok2_4. rewrite Hab. unfold cont. rewrite Hc, Hd. reflexivity.
Qed.

Lemma repl_ok : char_ok REPL = true. Proof. reflexivity. Qed.

(* ---------- the lossy text ---------- *)
Lemma lossy_fuel_valid f : forall t, Valid (lossy_fuel f t).
Proof.
  induction f as [|f IH]; intros t; cbn [lossy_fuel]; [apply valid_nil|].
  destruct (next_char t) as [[[c ok] r]|] eqn:E; [|apply valid_nil].
  destruct (next_char_split _ _ _ _ E) as (_ & _ & Hok & _).
  apply valid_app; [|apply IH]. destruct ok; [apply valid_char; auto|apply valid_char; exact repl_ok].
Qed.
Theorem lossy_valid t : Valid (lossy t).
Proof. apply lossy_fuel_valid. Qed.

Lemma lossy_fuel_id cs : forall f, Forall (fun c => char_ok c = true) cs -> (length cs <= f)%nat ->
  lossy_fuel f (concat cs) = concat cs.
Proof.
  induction cs as [|c cs IH]; intros f Hcs Hf.
  - destruct f; reflexivity.
  - inversion Hcs as [|? ? Hc Hcs']; subst. destruct f as [|f]; [cbn in Hf; lia|].
    cbn [concat lossy_fuel]. rewrite (next_char_ok c (concat cs) Hc). f_equal. apply IH; [exact Hcs'|cbn in Hf; lia].
Qed.
Theorem lossy_id t : Valid t -> lossy t = t.
Proof.
  intros (cs & Hcs & ->). unfold lossy. apply lossy_fuel_id; [exact Hcs|]. apply concat_length_ge. exact Hcs.
Qed.

(* at most three output bytes per input byte *)
Lemma lossy_fuel_len f : forall t, (length (lossy_fuel f t) <= 3 * length t)%nat.
Proof.
  induction f as [|f IH]; intros t; cbn [lossy_fuel]; [cbn; lia|].
  destruct (next_char t) as [[[c ok] r]|] eqn:E; [|cbn; lia].
  destruct (next_char_split _ _ _ _ E) as (Hs & Hne & _ & _). rewrite app_length. specialize (IH r).
  rewrite <- Hs, app_length. destruct c as [|x c]; [contradiction|]. destruct ok; unfold REPL; cbn [length] in *; lia.
Qed.
Theorem lossy_len t : (length (lossy t) <= 3 * length t)%nat.
Proof. apply lossy_fuel_len. Qed.

(* with enough fuel the whole input is consumed: the fuel in [lossy] is not a truncation *)
Lemma lossy_fuel_more f : forall t, (length t <= f)%nat -> lossy_fuel (S f) t = lossy_fuel f t.
Proof.
  induction f as [|f IH]; intros t Hf.
  - destruct t; [reflexivity|cbn in Hf; lia].
  - cbn [lossy_fuel]. destruct (next_char t) as [[[c ok] r]|] eqn:E; [|reflexivity].
    destruct (next_char_split _ _ _ _ E) as (Hs & Hne & _ & _). f_equal.
    change (lossy_fuel (S f) r = lossy_fuel f r). apply IH.
    rewrite <- Hs, app_length in Hf. destruct c; [contradiction|]. cbn [length] in Hf. lia.
Qed.

(* ---------- chunks ---------- *)
Lemma chunks_fuel_text f : forall t acc, chunks_text (chunks_fuel f t acc) = acc ++ lossy_fuel f t.
Proof.
  induction f as [|f IH]; intros t acc; cbn [chunks_fuel lossy_fuel].
  - destruct acc; cbn; rewrite ?app_nil_r; reflexivity.
  - destruct (next_char t) as [[[c ok] r]|] eqn:E.
    + destruct ok.
      * rewrite IH, app_assoc. reflexivity.
      * unfold chunks_text. cbn [map concat fst snd]. fold (chunks_text (chunks_fuel f r [])). rewrite IH.
        cbn [app]. rewrite <- app_assoc. reflexivity.
    + destruct acc; cbn; rewrite ?app_nil_r; reflexivity.
Qed.
Theorem chunks_of_text t : chunks_text (chunks_of t) = lossy t.
Proof. unfold chunks_of, lossy. rewrite chunks_fuel_text. reflexivity. Qed.

Lemma chunks_fuel_valid f : forall t acc, Valid acc -> Forall (fun c => Valid (fst c)) (chunks_fuel f t acc).
Proof.
  induction f as [|f IH]; intros t acc Ha; cbn [chunks_fuel].
  - destruct acc; constructor; auto.
  - destruct (next_char t) as [[[c ok] r]|] eqn:E.
    + destruct (next_char_split _ _ _ _ E) as (_ & _ & Hok & _). destruct ok.
      * apply IH. apply valid_app; [exact Ha|apply valid_char; auto].
      * constructor; [exact Ha|]. apply IH. apply valid_nil.
    + destruct acc; constructor; auto.
Qed.
Theorem chunks_of_valid t : Forall (fun c => Valid (fst c)) (chunks_of t).
Proof. apply chunks_fuel_valid. apply valid_nil. Qed.

(* ---------- UTF-16 ---------- *)
Definition is_high (u : N) : bool := in_range 55296 56319 u.    (* D800..DBFF *)
Definition is_low (u : N) : bool := in_range 56320 57343 u.     (* DC00..DFFF *)
Definition combine (h l : N) : N := 65536 + (h - 55296) * 1024 + (l - 56320).

(* char::decode_utf16: Some scalar / None for an unpaired surrogate *)
Fixpoint utf16_decode (t : list N) : list (option N) :=
  match t with
  | [] => []
  | u :: r =>
      if is_high u then
        match r with
        | l :: r' => if is_low l then Some (combine u l) :: utf16_decode r' else None :: utf16_decode r
        | [] => [None]
        end
      else if is_low u then None :: utf16_decode r
      else Some u :: utf16_decode r
  end.

Definition utf16_encode (c : N) : list N :=
  if c <? 65536 then [c] else [55296 + (c - 65536) / 1024; 56320 + (c - 65536) mod 1024].

(* every decoded value is a scalar, for 16-bit units *)
Lemma utf16_decode_scalars_n n : forall t, (length t <= n)%nat -> Forall (fun u => u < 65536) t ->
  Forall (fun o => match o with Some c => is_scalar c = true | None => True end) (utf16_decode t).
Proof.
  induction n as [|n IH]; intros t Hn Ht.
  { destruct t; [constructor|cbn in Hn; lia]. }
  destruct t as [|u r]; [constructor|]. cbn [utf16_decode]. cbn [length] in Hn.
  assert (Hu : u < 65536) by (inversion Ht; assumption).
  assert (Hr : Forall (fun u => u < 65536) r) by (inversion Ht; assumption).
  destruct (is_high u) eqn:Eh.
  - destruct r as [|l r']; [constructor; [exact I|constructor]|].
    assert (Hl : l < 65536) by (inversion Hr; assumption).
    assert (Hr' : Forall (fun u => u < 65536) r') by (inversion Hr; assumption).
    cbn [length] in Hn.
    destruct (is_low l) eqn:El.
    + constructor; [|apply IH; [lia|exact Hr']].
      unfold is_scalar, combine, is_high, is_low, in_range in *. b2p.
      apply orb_true_iff. right. apply andb_true_iff. split; [apply N.leb_le|apply N.ltb_lt]; nia.
    + constructor; [exact I|apply IH; [cbn [length]; lia|exact Hr]].
  - destruct (is_low u) eqn:El.
    + constructor; [exact I|apply IH; [lia|exact Hr]].
    + constructor; [|apply IH; [lia|exact Hr]].
      unfold is_scalar, is_high, is_low, in_range in *.
      apply andb_false_iff in Eh. apply andb_false_iff in El.
      destruct (N.ltb_spec u 55296); [reflexivity|]. cbn [orb].
      apply andb_true_iff. split; [apply N.leb_le|apply N.ltb_lt; lia].
      destruct Eh as [Eh|Eh]; destruct El as [El|El];
        try (apply N.leb_gt in Eh); try (apply N.leb_gt in El); lia.
Qed.
Lemma utf16_decode_scalars t : Forall (fun u => u < 65536) t ->
  Forall (fun o => match o with Some c => is_scalar c = true | None => True end) (utf16_decode t).
Proof. apply (utf16_decode_scalars_n (length t)). lia. Qed.

(* round trip: encoding scalars and decoding gives them back, with no errors *)
Lemma utf16_round_trip cs : Forall (fun c => is_scalar c = true) cs ->
  utf16_decode (concat (map utf16_encode cs)) = map Some cs.
Proof.
  induction cs as [|c cs IH]; intros H; [reflexivity|]. inversion H as [|? ? Hc Hcs]; subst.
  cbn [map concat]. unfold utf16_encode at 1. destruct (N.ltb_spec c 65536) as [Hlt|Hge]; cbn [app utf16_decode].
  - unfold is_scalar in Hc. apply orb_true_iff in Hc.
    assert (is_high c = false) as ->.
    { unfold is_high, in_range. destruct Hc as [Hc|Hc]; b2p.
      - apply andb_false_iff. left. apply N.leb_gt. lia.
      - apply andb_false_iff. right. apply N.leb_gt. lia. }
    assert (is_low c = false) as ->.
    { unfold is_low, in_range. destruct Hc as [Hc|Hc]; b2p.
      - apply andb_false_iff. left. apply N.leb_gt. lia.
      - apply andb_false_iff. right. apply N.leb_gt. lia. }
    rewrite IH by exact Hcs. reflexivity.
  - unfold is_scalar in Hc. apply orb_true_iff in Hc. destruct Hc as [Hc|Hc]; b2p; [lia|].
    set (d := c - 65536) in *.
    assert (Hd : d < 1048576) by (unfold d; lia).
    assert (Hq : d / 1024 < 1024) by (apply N.div_lt_upper_bound; lia).
    assert (Hm : d mod 1024 < 1024) by (apply N.mod_lt; lia).
    assert (is_high (55296 + d / 1024) = true) as ->.
    { unfold is_high, in_range. apply andb_true_iff. split; apply N.leb_le; lia. }
    assert (is_low (56320 + d mod 1024) = true) as ->.
    { unfold is_low, in_range. apply andb_true_iff. split; apply N.leb_le; lia. }
    rewrite IH by exact Hcs. f_equal. f_equal. unfold combine.
    replace (55296 + d / 1024 - 55296) with (d / 1024) by lia.
    replace (56320 + d mod 1024 - 56320) with (d mod 1024) by lia.
    pose proof (N.div_mod d 1024 ltac:(lia)) as E. unfold d in *. lia.
Qed.
