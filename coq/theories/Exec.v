(* Exec.v — the LeanString API level: a pool of handles, one operation at a time. *)
From Coq Require Import ZArith.
From LS Require Import Base Utf8 Cmd Impl NumModel.
From LSGen Require Import GenSrc.

Inductive mode := Plain | Try.
Inductive int_ty := TI8 | TU8 | TI16 | TU16 | TI32 | TU32 | TI64 | TU64 | TIsize | TUsize.

Inductive op :=
| ONew
| OFromStr (m : mode) (t : list N)
| OFromStatic (s : sid)
| OWithCapacity (m : mode) (n : N)
| OFromChar (c : N)
| OFromBool (b : bool)
| OFromInt (m : mode) (t : int_ty) (z : Z)
| OClone (i : nat)
| OCollectChars (hint : N) (panic_at : option nat) (cs : list N)
| OCollectStrs (panic_at : option nat) (ss : list (list N))
| ODisplay (m : mode) (err_at panic_at : option nat) (pieces : list (list N))
| OCloneFrom (i j : nat)
| ODrop (i : nat)
| OPush (m : mode) (i : nat) (c : N)
| OPushStr (m : mode) (i : nat) (s : list N)
| OAdd (i : nat) (s : list N)                      (* s = s + x: Add<&str> consumes self *)
| OPop (m : mode) (i : nat)
| ORemove (m : mode) (i : nat) (idx : N)
| OInsert (m : mode) (i : nat) (idx : N) (c : N)
| OInsertStr (m : mode) (i : nat) (idx : N) (s : list N)
| OTruncate (m : mode) (i : nat) (n : N)
| OClear (i : nat)
| ORetain (m : mode) (i : nat) (panic_at : option nat) (bits : list bool)
| OReserve (m : mode) (i : nat) (n : N)
| OShrinkTo (m : mode) (i : nat) (n : N)
| OExtendChars (i : nat) (hint : N) (panic_at : option nat) (cs : list N)
| OExtendStrs (i : nat) (panic_at : option nat) (ss : list (list N))
| OWriteFmt (i : nat) (err_at panic_at : option nat) (pieces : list (list N)).

Inductive outcome :=
| OkUnit | OkNone | OkChar (c : N) | ErrReserve | ErrFmt
| PanicReserve | PanicIndex | PanicUser | PanicTooLong | Skip | UbOut (u : ub).

Record world := { pool : list (option repr); wmem : mem }.

Definition get_slot (w : world) (i : nat) : option repr :=
  match nth_error (pool w) i with Some (Some r) => Some r | _ => None end.

(* unwrap_with_msg (lib.rs:1298-1320) / Result *)
Definition fin (m : mode) (ok : bool) : outcome :=
  if ok then OkUnit else match m with Plain => PanicReserve | Try => ErrReserve end.
Definition of_panic (p : panic) : outcome :=
  match p with PReserve => PanicReserve | PIndex => PanicIndex | PUser => PanicUser | PTooLong => PanicTooLong end.
Definition fin_res {A} (m : mode) (r : res A) (okv : A -> outcome) : outcome :=
  match r with ROk a => okv a | RErr => fin m false | RPanic p => of_panic p end.

Definition eq_opt_nat (o : option nat) (k : nat) : bool :=
  match o with Some n => Nat.eqb n k | None => false end.

(* predicate of [retain]: k-th call *)
Definition retain_pred (panic_at : option nat) (bits : list bool) (k : nat) : option bool :=
  if eq_opt_nat panic_at k then None
  else match bits with [] => Some true | _ => Some (nth (Nat.modulo k (length bits)) bits true) end.

(* ---- iterator-driven loops: each returns the final *self and how the loop ended ---- *)
(* a Display impl writing pieces through fmt::Write::write_str; also the shape of every push loop:
   item k is an error return (err_at), a panic of the callback (panic_at), or one push_str *)
Fixpoint write_pieces (r : repr) (ps : list (list N)) (k : nat) (err_at panic_at : option nat)
  : cmd (repr * outcome) :=
  match ps with
  | [] => Ret (r, OkUnit)
  | s :: rest =>
      if eq_opt_nat err_at k then Ret (r, ErrFmt) else
      if eq_opt_nat panic_at k then Ret (r, PanicUser) else
      p <- push_str r s ;;
      let '(r', ok) := p in
      if ok then write_pieces r' rest (S k) err_at panic_at else Ret (r', PanicReserve)
  end.

(* Extend<char> body (lib.rs:1221-1223): self.push(ch) = try_push(ch).unwrap_with_msg(), char by char *)
Definition push_chars (r : repr) (cs : list N) (k : nat) (panic_at : option nat) : cmd (repr * outcome) :=
  write_pieces r (map encode_cp cs) k None panic_at.
(* Extend<&str> body (lib.rs:1233-1237) *)
Definition push_strs (r : repr) (ss : list (list N)) (k : nat) (panic_at : option nat) : cmd (repr * outcome) :=
  write_pieces r ss k None panic_at.

(* Extend<char> (lib.rs:1213-1225) *)
Definition extend_chars (r : repr) (hint : N) (panic_at : option nat) (cs : list N) : cmd (repr * outcome) :=
  p <- reserve r hint ;;                    (* let _ = self.try_reserve(lower_bound) *)
  push_chars (fst p) cs 0 panic_at.

(* a constructor-like op that builds in an owned accumulator: dropped again unless the loop completed *)
Definition finish_acc (p : repr * outcome) : cmd (option repr * outcome) :=
  let '(r, o) := p in
  match o with
  | OkUnit => Ret (Some r, OkUnit)
  | _ => replace_inner r repr_new ;;; Ret (None, o)
  end.

(* FromIterator<char> (lib.rs:1150-1165, after the F3 repair: accumulates in a LeanString) *)
Definition collect_chars (hint : N) (panic_at : option nat) (cs : list N) : cmd (option repr * outcome) :=
  oc <- with_capacity hint ;;
  let r0 := match oc with Some r => r | None => repr_new end in
  p <- push_chars r0 cs 0 panic_at ;;
  finish_acc p.
Definition collect_strs (panic_at : option nat) (ss : list (list N)) : cmd (option repr * outcome) :=
  p <- push_strs repr_new ss 0 panic_at ;; finish_acc p.
(* generic to_lean_string / try_to_lean_string (traits.rs:66-70, after the F4 repair) *)
Definition display (m : mode) (err_at panic_at : option nat) (ps : list (list N)) : cmd (option repr * outcome) :=
  p <- write_pieces repr_new ps 0 err_at panic_at ;;
  let '(r, o) := p in
  finish_acc (r, match o with PanicReserve => fin m false | _ => o end).

(* integer -> text (num_to_repr.rs:47-137): with_capacity(digit_count), digits written back to front through
   as_slice_mut (modelled as one write of the finished text), set_len(digit_count) *)
Definition table_of (t : int_ty) : list (Z * Z * N) :=
  match t with
  | TI8 => digit_table_i8 | TU8 => digit_table_u8 | TI16 => digit_table_i16 | TU16 => digit_table_u16
  | TI32 => digit_table_i32 | TU32 => digit_table_u32 | TI64 | TIsize => digit_table_i64 | TU64 | TUsize => digit_table_u64
  end.
Definition from_int (t : int_ty) (z : Z) : cmd (option repr) :=
  match lookup (table_of t) z with
  | None => Unreachable                      (* the match is exhaustive in Rust *)
  | Some dc =>
      oc <- with_capacity dc ;;
      match oc with
      | None => Ret None
      | Some r =>
          match write_int dec_digits_lut dc (negb (0 <=? z)%Z) (magnitude z) with
          | None => Unreachable              (* a store outside the buffer *)
          | Some txt => r1 <- write_at r 0 txt ;; r2 <- set_len r1 dc ;; Ret (Some r2)
          end
      end
  end.

(* ---- running a command against the world ---- *)
Definition append_slot (w : world) (m : mem) (s : option repr) : world :=
  {| pool := pool w ++ [s]; wmem := m |}.
Definition set_slot (w : world) (m : mem) (i : nat) (s : option repr) : world :=
  {| pool := upd (pool w) i s; wmem := m |}.

(* constructor-like *)
Definition exec_ctor (w : world) (c : cmd (option repr * outcome)) : world * outcome :=
  match run c (wmem w) with
  | (OVal (s, o), m') => (append_slot w m' s, o)
  | (OUb u, m') => (append_slot w m' None, UbOut u)
  end.
(* in-place on slot i *)
Definition exec_on (w : world) (i : nat) (f : repr -> cmd (repr * outcome)) : world * outcome :=
  match get_slot w i with
  | None => (w, Skip)
  | Some r =>
      match run (f r) (wmem w) with
      | (OVal (r', o), m') => (set_slot w m' i (Some r'), o)
      | (OUb u, m') => ({| pool := pool w; wmem := m' |}, UbOut u)
      end
  end.

Definition opt_ctor (m : mode) (c : cmd (option repr)) : cmd (option repr * outcome) :=
  o <- c ;; match o with Some r => Ret (Some r, OkUnit) | None => Ret (None, fin m false) end.

Definition static_len (w : world) (s : sid) : N :=
  match nth_error (statics (wmem w)) s with Some t => len t | None => 0 end.

Definition exec (w : world) (o : op) : world * outcome :=
  match o with
  | ONew => exec_ctor w (Ret (Some repr_new, OkUnit))
  | OFromStr m t => exec_ctor w (opt_ctor m (from_str t))
  | OFromStatic s =>
      exec_ctor w (r <- from_static_str s (static_len w s) ;;
                   match r with ROk x => Ret (Some x, OkUnit) | RErr => Ret (None, PanicReserve)
                              | RPanic p => Ret (None, of_panic p) end)
  | OWithCapacity m n => exec_ctor w (opt_ctor m (with_capacity n))
  | OFromChar c => exec_ctor w (Ret (Some (Inline (inline_new (encode_cp c))), OkUnit))
  | OFromBool b =>
      exec_ctor w (Ret (Some (Inline (inline_new (if b then [116;114;117;101] else [102;97;108;115;101]))), OkUnit))
  | OFromInt m t z => exec_ctor w (opt_ctor m (from_int t z))
  | OClone i =>
      match get_slot w i with
      | None => (append_slot w (wmem w) None, Skip)
      | Some r => exec_ctor w (c <- make_shallow_clone r ;; Ret (Some c, OkUnit))
      end
  | OCollectChars hint pa cs => exec_ctor w (collect_chars hint pa cs)
  | OCollectStrs pa ss => exec_ctor w (collect_strs pa ss)
  | ODisplay m ea pa ps => exec_ctor w (display m ea pa ps)
  | OCloneFrom i j =>
      match get_slot w j with
      | None => (w, Skip)
      | Some src =>
          if Nat.eqb i j then (w, Skip) else
          exec_on w i (fun r => c <- make_shallow_clone src ;; r' <- replace_inner r c ;; Ret (r', OkUnit))
      end
  | ODrop i =>
      match get_slot w i with
      | None => (w, Skip)
      | Some r =>
          match run (replace_inner r repr_new) (wmem w) with
          | (OVal _, m') => (set_slot w m' i None, OkUnit)
          | (OUb u, m') => ({| pool := pool w; wmem := m' |}, UbOut u)
          end
      end
  | OPush m i c => exec_on w i (fun r => p <- push_str r (encode_cp c) ;; Ret (fst p, fin m (snd p)))
  | OPushStr m i s => exec_on w i (fun r => p <- push_str r s ;; Ret (fst p, fin m (snd p)))
  | OAdd i s =>
      (* Add::add(mut self, rhs) { self.push_str(rhs); self }: on a panic the moved value is dropped by unwinding *)
      match get_slot w i with
      | None => (w, Skip)
      | Some r =>
          match run (p <- push_str r s ;;
                     if snd p then Ret (Some (fst p)) else replace_inner (fst p) repr_new ;;; Ret None) (wmem w) with
          | (OVal (Some r'), m') => (set_slot w m' i (Some r'), OkUnit)
          | (OVal None, m') => (set_slot w m' i None, PanicReserve)
          | (OUb u, m') => ({| pool := pool w; wmem := m' |}, UbOut u)
          end
      end
  | OPop m i =>
      exec_on w i (fun r => p <- pop r ;;
                            Ret (fst p, match snd p with Some c => OkChar c | None => OkNone end))
  | ORemove m i idx => exec_on w i (fun r => p <- remove r idx ;; Ret (fst p, fin_res m (snd p) OkChar))
  | OInsert m i idx c =>
      exec_on w i (fun r => p <- insert_str r idx (encode_cp c) ;; Ret (fst p, fin_res m (snd p) (fun _ => OkUnit)))
  | OInsertStr m i idx s =>
      exec_on w i (fun r => p <- insert_str r idx s ;; Ret (fst p, fin_res m (snd p) (fun _ => OkUnit)))
  | OTruncate m i n => exec_on w i (fun r => p <- truncate r n ;; Ret (fst p, fin_res m (snd p) (fun _ => OkUnit)))
  | OClear i => exec_on w i (fun r => r' <- clear r ;; Ret (r', OkUnit))
  | ORetain m i pa bits =>
      exec_on w i (fun r => p <- retain r (retain_pred pa bits) ;; Ret (fst p, fin_res m (snd p) (fun _ => OkUnit)))
  | OReserve m i n => exec_on w i (fun r => p <- reserve r n ;; Ret (fst p, fin m (snd p)))
  | OShrinkTo m i n => exec_on w i (fun r => p <- shrink_to r n ;; Ret (fst p, fin m (snd p)))
  | OExtendChars i hint pa cs => exec_on w i (fun r => extend_chars r hint pa cs)
  | OExtendStrs i pa ss => exec_on w i (fun r => push_strs r ss 0 pa)
  | OWriteFmt i ea pa ps => exec_on w i (fun r => write_pieces r ps 0 ea pa)
  end.

Definition execs (w : world) (ops : list op) : world * list outcome :=
  fold_left (fun acc o => let '(w1, outs) := acc in let '(w2, out) := exec w1 o in (w2, outs ++ [out]))
            ops (w, []).

(* ---- observations ---- *)
Definition text_of (m : mem) (r : repr) : list N :=
  match r with
  | Inline bs => inline_text bs
  | Heap b l => match nth_error (heap m) b with Some x => firstn (N.to_nat l) (data x) | None => [] end
  | Static s l => match nth_error (statics m) s with Some t => firstn (N.to_nat l) t | None => [] end
  end.
Definition cap_of (m : mem) (r : repr) : N :=
  match r with
  | Inline _ => MAX_INLINE_SIZE
  | Heap b _ => match nth_error (heap m) b with Some x => cap x | None => 0 end
  | Static _ l => l
  end.
Definition rc_of (m : mem) (r : repr) : N :=
  match r with
  | Heap b _ => match nth_error (heap m) b with Some x => count x | None => 0 end
  | _ => 0
  end.
Definition live_blocks (m : mem) : N := len (filter live (heap m)).

(* the empty world of one thread among others: [ex] is what the foreign references add to each count it reads *)
Definition mem0x (st : list (list N)) (orc : N -> N -> bool) (ex : N -> N) : mem :=
  {| heap := []; statics := st; orc := orc; nreq := 0; log := []; ext := ex |}.
Definition world0x (st : list (list N)) (orc : N -> N -> bool) (ex : N -> N) : world := {| pool := []; wmem := mem0x st orc ex |}.
(* the sequential empty world: nobody else *)
Definition mem0 (st : list (list N)) (orc : N -> N -> bool) : mem := mem0x st orc (fun _ => 0).
Definition world0 (st : list (list N)) (orc : N -> N -> bool) : world := {| pool := []; wmem := mem0 st orc |}.

(* the oracle the harness uses: refuse the listed request numbers and anything above [limit] *)
Definition orc_of (fails : list N) (limit : N) : N -> N -> bool :=
  fun k size => existsb (N.eqb k) fails || (limit <? size).

(* drop every remaining handle in slot order (end of a case) *)
Definition drop_all (w : world) : world :=
  fst (fold_left (fun acc i => (fst (exec (fst acc) (ODrop i)), tt)) (seq 0 (length (pool w))) (w, tt)).
