(* Specs3.v — constructors, clone, drop, and the iterator-driven loops. *)
From Coq Require Import Lia Arith ZArith.
From LS Require Import Base Utf8 Utf8Spec Utf8Facts Cmd Impl Wp ListFacts Growth Inv InlineFacts NumModel Exec Specs Specs2.
From LSGen Require Import GenSrc.
Open Scope N_scope.

(* ---------- a new handle appears (constructors): own' = own + [r'] ---------- *)
Record ctor_ok (m : mem) (own : bufid -> N) (m' : mem) (r' : repr) : Prop := {
  co_env : same_env m m';
  co_mi : MI (heap m') (fun b => own b + one (names r' b));
  co_h : handle_ok (heap m') (statics m') r';
  co_frame : frame (heap m) (heap m') (fun b => 1 <= own b);
}.

Lemma ctor_ok_nonheap m own m' r' :
  MI (heap m) own -> same_env m m' -> heap m' = heap m -> is_heap r' = false ->
  handle_ok (heap m) (statics m) r' -> ctor_ok m own m' r'.
Proof.
  intros HM He Hh Hn Hr. split; auto.
  - rewrite Hh. eapply MI_ext; [exact HM|]. intros b. destruct r'; cbn in *; try discriminate; lia.
  - eapply handle_ok_same; eauto.
  - rewrite Hh. apply frame_refl.
Qed.
Lemma ctor_ok_fresh m own t c m' :
  MI (heap m) own -> Valid t -> len t <= c -> c <= MAX_LEN ->
  same_env m m' -> heap m' = heap m ++ [mkbuf c (filled c t)] ->
  ctor_ok m own m' (Heap (length (heap m)) (len t))
  /\ text_of m' (Heap (length (heap m)) (len t)) = t
  /\ cap_of m' (Heap (length (heap m)) (len t)) = c
  /\ exclusive (heap m') (Heap (length (heap m)) (len t)).
Proof.
  intros HM Hv Hlc Hc He Hh.
  destruct (fresh_copy_ok m own repr_new t c m' HM eq_refl Hv Hlc Hc He Hh) as ([E M H F] & S2 & S3 & S4).
  split; [|auto]. split; auto.
  - eapply MI_ext; [exact M|]. intros b. unfold adj. cbn [names repr_new one]. lia.
  - rewrite Hh. apply frame_app.
Qed.

Lemma inline_handle_ok h st t : Valid t -> (length t <= 16)%nat -> handle_ok h st (Inline (inline_new t)).
Proof.
  intros Hv Hl. cbn [handle_ok]. split; [apply inline_new_length; exact Hl|].
  split; [rewrite inline_new_text; auto|apply inline_new_lastbyte; auto].
Qed.
Lemma repr_new_ok h st : handle_ok h st repr_new.
Proof. unfold repr_new. rewrite inline_empty_eq. apply inline_handle_ok; [apply valid_nil|cbn; lia]. Qed.
Lemma repr_new_text m : text_of m repr_new = [].
Proof. unfold repr_new. rewrite inline_empty_eq. cbn [text_of]. apply inline_new_text; [apply valid_nil|cbn; lia]. Qed.

(* heap_new with the bound made available in the success branch *)
Lemma heap_new_wp' t (Q : out (option repr) -> mem -> Prop) m :
  (MAX_LEN < len t -> Q (OVal None) m) ->
  (forall m', same_env m m' -> heap m' = heap m -> nreq m' = nreq m + 1 -> Q (OVal None) m') ->
  (forall m', same_env m m' -> heap m' = heap m ++ [mkbuf (len t) (filled (len t) t)] -> nreq m' = nreq m + 1 ->
              len t <= MAX_LEN -> Q (OVal (Some (Heap (length (heap m)) (len t)))) m') ->
  wp (heap_new t) Q m.
Proof.
  intros Hbig Hf Hs. destruct (N.leb_spec (len t) MAX_LEN) as [Hle|Hgt].
  - apply heap_new_wp; auto. intros m' He Hh Hn. apply Hs; auto.
    rewrite Hh. rewrite (filled_exact (len t) t eq_refl). reflexivity.
  - unfold heap_new. rewrite text_len_new_spec. apply N.leb_gt in Hgt. rewrite Hgt. apply wp_ret. apply Hbig.
    apply N.leb_gt in Hgt. exact Hgt.
Qed.

(* from_str *)
Record from_str_post (m : mem) (own : bufid -> N) (t : list N) (m' : mem) (o : option repr) : Prop := {
  fs_none : o = None -> same_env m m' /\ heap m' = heap m /\ 16 < len t;
  fs_some : forall r', o = Some r' ->
            ctor_ok m own m' r' /\ text_of m' r' = t
            /\ (len t <= 16 -> is_heap r' = false /\ is_static r' = false /\ heap m' = heap m /\ nreq m' = nreq m)
            /\ (16 < len t -> is_heap r' = true /\ cap_of m' r' = len t /\ nreq m' = nreq m + 1 /\ exclusive (heap m') r');
}.
Lemma from_str_wp m own t (Q : out (option repr) -> mem -> Prop) :
  MI (heap m) own -> Valid t ->
  (forall m' o, from_str_post m own t m' o -> Q (OVal o) m') ->
  wp (from_str t) Q m.
Proof.
  intros HM Hv HQ. unfold from_str, cond_from_str_inline. rewrite max_inline_16.
  destruct (N.leb_spec (len t) 16) as [Hs|Hb].
  - apply wp_ret. apply HQ. split; [discriminate|]. intros r' E. injection E as <-.
    assert (Hl : (length t <= 16)%nat) by (unfold len in Hs; lia).
    split; [|split; [|split]].
    + apply ctor_ok_nonheap; auto. apply inline_handle_ok; auto.
    + cbn [text_of]. apply inline_new_text; auto.
    + intros _. auto.
    + intros Hx. lia.
  - apply heap_new_wp'.
    + intros Hbig. apply HQ. split; [intros _; auto|discriminate].
    + intros m' He Hh Hn. apply HQ. split; [intros _; auto|discriminate].
    + intros m' He Hh Hn HlM. apply HQ. split; [discriminate|]. intros r' E. injection E as <-.
      destruct (ctor_ok_fresh m own t (len t) m' HM Hv (N.le_refl _) HlM He Hh) as (S1 & S2 & S3 & S4).
      split; [exact S1|]. split; [exact S2|]. split; [intros Hx; lia|]. intros _. auto.
Qed.

(* with_capacity *)
Record with_capacity_post (m : mem) (own : bufid -> N) (c : N) (m' : mem) (o : option repr) : Prop := {
  wc_none : o = None -> same_env m m' /\ heap m' = heap m /\ 16 < c;
  wc_some : forall r', o = Some r' ->
            ctor_ok m own m' r' /\ text_of m' r' = [] /\ c <= cap_of m' r' /\ exclusive (heap m') r'
            /\ (c <= 16 -> r' = repr_new /\ heap m' = heap m /\ nreq m' = nreq m)
            /\ (16 < c -> is_heap r' = true /\ cap_of m' r' = c /\ nreq m' = nreq m + 1);
}.
Lemma with_capacity_wp m own c (Q : out (option repr) -> mem -> Prop) :
  MI (heap m) own ->
  (forall m' o, with_capacity_post m own c m' o -> Q (OVal o) m') ->
  wp (with_capacity c) Q m.
Proof.
  intros HM HQ. unfold with_capacity, cond_with_capacity_inline. rewrite max_inline_16.
  destruct (N.leb_spec c 16) as [Hs|Hb].
  - apply wp_ret. apply HQ. split; [discriminate|]. intros r' E. injection E as <-.
    split; [apply ctor_ok_nonheap; auto; apply repr_new_ok|].
    split; [apply repr_new_text|]. split; [cbn [cap_of repr_new]; rewrite max_inline_16; exact Hs|].
    split; [exact I|]. split; [auto|intros Hx; lia].
  - apply heap_with_capacity_wp.
    + intros Hbig. apply HQ. split; [intros _; auto|discriminate].
    + intros m' He Hh Hn. apply HQ. split; [intros _; auto|discriminate].
    + intros m' He Hh Hn Hc. apply HQ. split; [discriminate|]. intros r' E. injection E as <-.
      assert (G : heap m' = heap m ++ [mkbuf c (filled c [])]).
      { rewrite Hh. unfold filled. cbn [app len length]. rewrite N.sub_0_r. reflexivity. }
      assert (G0 : len (@nil N) <= c) by (change (len (@nil N)) with 0; lia).
      destruct (ctor_ok_fresh m own [] c m' HM valid_nil G0 Hc He G) as (S1 & S2 & S3 & S4).
      change (len (@nil N)) with 0 in *.
      split; [exact S1|]. split; [exact S2|]. split; [rewrite S3; lia|]. split; [exact S4|].
      split; [intros Hx; lia|]. intros _. auto.
Qed.

(* from_static_str *)
Record from_static_post (m : mem) (own : bufid -> N) (s : sid) (t : list N) (m' : mem) (res : res repr) : Prop := {
  st_same : same_env m m' /\ heap m' = heap m /\ nreq m' = nreq m;
  st_err : res <> RErr;
  st_panic : forall p, res = RPanic p -> p = PTooLong /\ STATIC_MAX_LENGTH < len t;
  st_ok : forall r', res = ROk r' ->
          ctor_ok m own m' r' /\ text_of m' r' = t /\ is_heap r' = false
          /\ (16 < len t -> r' = Static s (len t));
}.
Lemma from_static_str_wp m own s t (Q : out (res repr) -> mem -> Prop) :
  MI (heap m) own -> nth_error (statics m) s = Some t -> Valid t ->
  (forall m' res, from_static_post m own s t m' res -> Q (OVal res) m') ->
  wp (from_static_str s (len t)) Q m.
Proof.
  intros HM Hs Hv HQ. unfold from_static_str, cond_from_static_inline, cond_static_too_long. rewrite max_inline_16.
  destruct (N.leb_spec (len t) 16) as [Hsm|Hbg].
  - apply wp_bind. eapply read_static_wp; [exact Hs|lia|]. intros m' He Hh Hn. unfold lift. apply wp_ret.
    change (N.to_nat 0) with 0%nat. rewrite slice_0. rewrite len_to_nat, firstn_all.
    assert (Hl : (length t <= 16)%nat) by (unfold len in Hsm; lia).
    apply HQ. split; auto; try discriminate.
    intros r' E. injection E as <-. split; [|split; [|split]].
    + apply ctor_ok_nonheap; auto. apply inline_handle_ok; auto.
    + cbn [text_of]. apply inline_new_text; auto.
    + reflexivity.
    + intros Hx. lia.
  - destruct (N.ltb_spec STATIC_MAX_LENGTH (len t)) as [Hbig|Hok].
    + apply wp_ret. apply HQ. split; auto; try discriminate.
      intros p E. injection E as <-. auto.
    + apply wp_ret. apply HQ. split; auto; try discriminate.
      intros r' E. injection E as <-. split; [|split; [|split]].
      * apply ctor_ok_nonheap; auto. cbn [handle_ok]. exists t. rewrite len_to_nat, firstn_all. repeat split; auto; lia.
      * cbn [text_of]. rewrite Hs. rewrite len_to_nat. apply firstn_all.
      * reflexivity.
      * intros _. reflexivity.
Qed.

(* ---------- clone ---------- *)
Definition bumped (x : buf) : buf :=
  {| live := true; asize := asize x; count := count x + 1; cap := cap x; data := data x |}.
Record clone_post (m : mem) (own : bufid -> N) (r : repr) (m' : mem) (r' : repr) : Prop := {
  cn_same : r' = r;
  cn_ctor : ctor_ok m own m' r;
  cn_nreq : nreq m' = nreq m;
  cn_text : text_of m' r = text_of m r;
  cn_heap : match r with
            | Heap b _ => exists x, nth_error (heap m) b = Some x /\ heap m' = upd (heap m) b (bumped x)
            | _ => heap m' = heap m
            end;
}.
Lemma clone_wp m own r (Q : out repr -> mem -> Prop) :
  MI (heap m) own -> handle_ok (heap m) (statics m) r -> counted own r ->
  (forall m' r', clone_post m own r m' r' -> Q (OVal r') m') ->
  wp (make_shallow_clone r) Q m.
Proof.
  intros HM Hr Hc HQ. destruct r as [bs|b l|s l]; cbn [make_shallow_clone].
  - apply wp_ret. apply HQ. split; auto. apply ctor_ok_nonheap; auto.
  - pose proof Hr as Hr0. destruct Hr as (x & Hb & Hl & Hlc & Hd & Hv).
    destruct (MI_lookup _ _ _ _ HM Hb Hl) as ((W1 & W2 & W3) & Hcx & Hox).
    apply wp_bind. unfold rmw. eapply wp_rmw; [exact Hb|exact Hl|]. apply wp_ret. unfold lift. apply wp_ret.
    assert (Hlt : (b < length (heap m))%nat) by (eapply nth_error_lt; eauto).
    set (m' := set_buf m b _ _).
    assert (Hh : heap m' = upd (heap m) b (bumped x)) by reflexivity.
    assert (Hb' : nth_error (heap m') b = Some (bumped x)) by (rewrite Hh; apply nth_error_upd_eq; exact Hlt).
    apply HQ. split; auto.
    + split.
      * repeat split; reflexivity.
      * rewrite Hh. eapply MI_upd; [exact HM|exact Hb| |].
        -- unfold bumped. cbn [live]. unfold buf_wf. cbn [asize cap data count names]. rewrite Nat.eqb_refl. cbn [one].
           repeat split; auto; lia.
        -- intros b' Hne. cbn [names]. apply Nat.eqb_neq in Hne. rewrite Nat.eqb_sym, Hne. cbn [one]. lia.
      * cbn [handle_ok]. exists (bumped x). rewrite Hb'. unfold bumped. cbn [live cap data]. auto.
      * rewrite Hh. eapply frame_upd_same; [exact Hb|]. unfold bumped, buf_same. cbn. auto.
    + cbn [text_of]. rewrite Hb', Hb. reflexivity.
    + exists x. auto.
  - apply wp_ret. apply HQ. split; auto. apply ctor_ok_nonheap; auto.
Qed.

(* ---------- drop: replace_inner r <a handle that names no buffer> ---------- *)
Lemma release_step m own b l x r' m' :
  MI (heap m) own -> counted own (Heap b l) ->
  nth_error (heap m) b = Some x -> live x = true ->
  is_heap r' = false -> handle_ok (heap m') (statics m') r' ->
  same_env m m' -> heap m' = upd (heap m) b (released x) ->
  step_ok m own (Heap b l) m' r'.
Proof.
  intros HM Hc Hb Hl Hn Hr' He Hh.
  assert (Hnames : forall b', names r' b' = false) by (destruct r'; cbn in *; auto; discriminate).
  destruct (MI_lookup _ _ _ _ HM Hb Hl) as (_ & Hcx & Hox).
  split; auto.
  - rewrite Hh. eapply MI_release; eauto. intros b'. unfold adj. rewrite Hnames. cbn [names one].
    rewrite (Nat.eqb_sym b' b). lia.
  - rewrite Hh. apply frame_release; auto. unfold others. cbn [names]. rewrite Nat.eqb_refl. cbn [one]. lia.
Qed.

Record drop_post (m : mem) (own : bufid -> N) (r : repr) (other : repr) (m' : mem) (r' : repr) : Prop := {
  dp_same : r' = other;
  dp_step : step_ok m own r m' other;
  dp_nreq : nreq m' = nreq m;
  dp_heap : match r with
            | Heap b _ => exists x, nth_error (heap m) b = Some x /\ live x = true /\ heap m' = upd (heap m) b (released x)
            | _ => heap m' = heap m
            end;
}.
Lemma replace_nonheap_wp m own r other (Q : out repr -> mem -> Prop) :
  MI (heap m) own -> handle_ok (heap m) (statics m) r -> counted own r ->
  is_heap other = false -> (forall h, handle_ok h (statics m) other) ->
  (forall m' r', drop_post m own r other m' r' -> Q (OVal r') m') ->
  wp (replace_inner r other) Q m.
Proof.
  intros HM Hr Hc Hn Ho HQ. destruct r as [bs|b l|s l].
  - apply replace_inner_other_wp; [reflexivity|]. apply HQ. split; auto.
    apply step_ok_local; [exact HM|exact Hc| |apply same_env_refl|reflexivity|apply Ho].
    intros b. destruct other; cbn in *; auto; discriminate.
  - destruct Hr as (x & Hb & Hl & _). destruct (MI_lookup _ _ _ _ HM Hb Hl) as (Hw & Hcx & Hox).
    eapply replace_inner_heap_wp; [exact Hb|exact Hl|exact Hw|lia|]. intros m' He Hh Hnq.
    apply HQ. split; auto.
    + eapply release_step; eauto. destruct He as (-> & _). apply Ho.
    + exists x. auto.
  - apply replace_inner_other_wp; [reflexivity|]. apply HQ. split; auto.
    apply step_ok_local; [exact HM|exact Hc| |apply same_env_refl|reflexivity|apply Ho].
    intros b. destruct other; cbn in *; auto; discriminate.
Qed.

(* ---------- the piece-writing loop (Display pieces; also the body of extend / collect) ---------- *)
(* where a callback scheduled to fail at absolute position p stops a loop that starts at position k over n items *)
Definition stop_at (p : option nat) (k n : nat) : option nat :=
  match p with
  | Some q => if Nat.leb k q && Nat.ltb q (k + n) then Some (q - k)%nat else None
  | None => None
  end.
(* first of the two stops *)
Definition first_stop (ea pa : option nat) (k n : nat) : option (nat * outcome) :=
  match stop_at ea k n, stop_at pa k n with
  | Some a, Some b => if Nat.leb a b then Some (a, ErrFmt) else Some (b, PanicUser)
  | Some a, None => Some (a, ErrFmt)
  | None, Some b => Some (b, PanicUser)
  | None, None => None
  end.

Record pieces_post (m : mem) (own : bufid -> N) (r : repr) (ps : list (list N)) (k : nat) (ea pa : option nat)
       (m' : mem) (r' : repr) (out : outcome) : Prop := {
  pc_step : step_ok m own r m' r';
  pc_done : out <> PanicReserve ->
            match first_stop ea pa k (length ps) with
            | Some (n, o) => out = o /\ text_of m' r' = text_of m r ++ concat (firstn n ps)
            | None => out = OkUnit /\ text_of m' r' = text_of m r ++ concat ps
            end;
  pc_fail : out = PanicReserve -> exists n, (n < length ps)%nat /\ text_of m' r' = text_of m r ++ concat (firstn n ps);
}.

Lemma counted_adj own r r1 : counted (adj own r r1) r1.
Proof. intros b Hb. unfold adj. rewrite Hb. cbn [one]. lia. Qed.

Lemma eq_opt_nat_spec o k : eq_opt_nat o k = true <-> o = Some k.
Proof.
  destruct o as [n|]; cbn [eq_opt_nat]; [|split; discriminate].
  rewrite Nat.eqb_eq. split; [intros ->; reflexivity|intros E; injection E; auto].
Qed.

Lemma stop_at_here p k n : p = Some k -> stop_at p k (S n) = Some 0%nat.
Proof.
  intros ->. unfold stop_at. rewrite Nat.leb_refl. replace (Nat.ltb k (k + S n)) with true by (symmetry; apply Nat.ltb_lt; lia).
  cbn [andb]. f_equal. lia.
Qed.
Lemma stop_at_later p k n : p <> Some k -> stop_at p k (S n) = option_map S (stop_at p (S k) n).
Proof.
  intros Hne. unfold stop_at. destruct p as [q|]; [|reflexivity].
  assert (q <> k) by (intros ->; apply Hne; reflexivity).
  destruct (Nat.leb_spec k q), (Nat.leb_spec (S k) q), (Nat.ltb_spec q (k + S n)), (Nat.ltb_spec q (S k + n));
    cbn [andb option_map]; try reflexivity; try lia. f_equal. lia.
Qed.

Lemma write_pieces_wp ps : forall m own r k ea pa (Q : out (repr * outcome) -> mem -> Prop),
  MI (heap m) own -> handle_ok (heap m) (statics m) r -> counted own r -> Forall Valid ps ->
  (forall m' r' out, pieces_post m own r ps k ea pa m' r' out -> Q (OVal (r', out)) m') ->
  wp (write_pieces r ps k ea pa) Q m.
Proof.
  induction ps as [|s rest IH]; intros m own r k ea pa Q HM Hr Hc Hv HQ; cbn [write_pieces].
  - apply wp_ret. apply HQ. split.
    + apply step_ok_refl; auto.
    + intros _. unfold first_stop, stop_at. cbn [length].
      assert (E : forall q, Nat.leb k q && Nat.ltb q (k + 0) = false).
      { intros q. destruct (Nat.leb_spec k q), (Nat.ltb_spec q (k + 0)); cbn; auto; lia. }
      destruct ea, pa; rewrite ?E; cbn [concat]; rewrite app_nil_r; auto.
    + discriminate.
  - inversion Hv as [|? ? Hvs Hvr]; subst.
    destruct (eq_opt_nat ea k) eqn:Eea.
    { apply eq_opt_nat_spec in Eea. apply wp_ret. apply HQ. split.
      - apply step_ok_refl; auto.
      - intros _. unfold first_stop. cbn [length]. rewrite (stop_at_here ea k _ Eea).
        destruct (stop_at pa k (S (length rest))); cbn [Nat.leb firstn concat]; rewrite app_nil_r; auto.
      - discriminate. }
    assert (Hea : ea <> Some k) by (intros E; apply eq_opt_nat_spec in E; congruence).
    destruct (eq_opt_nat pa k) eqn:Epa.
    { apply eq_opt_nat_spec in Epa. apply wp_ret. apply HQ. split.
      - apply step_ok_refl; auto.
      - intros _. unfold first_stop. cbn [length]. rewrite (stop_at_here pa k _ Epa), (stop_at_later ea k _ Hea).
        destruct (stop_at ea (S k) (length rest)); cbn [option_map Nat.leb firstn concat]; rewrite app_nil_r; auto.
      - discriminate. }
    assert (Hpa : pa <> Some k) by (intros E; apply eq_opt_nat_spec in E; congruence).
    apply wp_bind. apply (push_str_wp m own r s); auto. intros m1 r1 ok [P1 P2 P3 P4 P5]. unfold lift.
    destruct ok.
    + pose proof (so_mi _ _ _ _ _ P1) as HM1. pose proof (so_h _ _ _ _ _ P1) as Hr1.
      apply (IH m1 (adj own r r1) r1 (S k) ea pa); auto; [apply counted_adj|].
      intros m' r' out [R1 R2 R3]. apply HQ. rewrite (P2 eq_refl) in R2, R3. split.
      * eapply step_ok_trans; eauto.
      * intros Hne. specialize (R2 Hne). unfold first_stop in *. cbn [length].
        rewrite (stop_at_later ea k _ Hea), (stop_at_later pa k _ Hpa).
        destruct (stop_at ea (S k) (length rest)) as [a|], (stop_at pa (S k) (length rest)) as [b|];
          cbn [option_map Nat.leb] in *.
        -- destruct (Nat.leb a b); cbn [firstn concat]; rewrite app_assoc; exact R2.
        -- cbn [firstn concat]; rewrite app_assoc; exact R2.
        -- cbn [firstn concat]; rewrite app_assoc; exact R2.
        -- cbn [concat]; rewrite app_assoc; exact R2.
      * intros E. destruct (R3 E) as (n & Hn & Ht). exists (S n). split; [cbn [length]; lia|].
        cbn [firstn concat]. rewrite Ht, app_assoc. reflexivity.
    + destruct (P3 eq_refl) as (-> & Hh1). apply wp_ret. apply HQ. split.
      * exact P1.
      * intros Hx. congruence.
      * intros _. exists 0%nat. split; [cbn [length]; lia|]. cbn [firstn concat]. rewrite app_nil_r.
        apply text_of_same; [exact (so_env _ _ _ _ _ P1)|exact Hh1].
Qed.
