(* Observe.v — what the trace shows of a world, as data, so that the extracted OCaml run can be compared with the
   same definitions evaluated by vm_compute inside Coq (cross-check of extraction, tools/lsv.py). *)
From Coq Require Import ZArith.
From LS Require Import Base Utf8 Cmd Impl Exec.
Open Scope N_scope.

Inductive oslot :=
| SlotN
| SlotI (t : list N) (c : N)
| SlotH (t : list N) (c : N) (id rc : N)
| SlotS (t : list N) (c : N) (s : N).

Definition observe_slot (m : mem) (s : option repr) : oslot :=
  match s with
  | None => SlotN
  | Some (Inline bs) => SlotI (text_of m (Inline bs)) (cap_of m (Inline bs))
  | Some (Heap b l) => SlotH (text_of m (Heap b l)) (cap_of m (Heap b l)) (N.of_nat b) (rc_of m (Heap b l))
  | Some (Static s l) => SlotS (text_of m (Static s l)) (cap_of m (Static s l)) (N.of_nat s)
  end.
Definition observe (w : world) : list oslot := map (observe_slot (wmem w)) (pool w).

(* outcome as (code, payload) *)
Definition outcome_code (o : outcome) : N * N :=
  match o with
  | OkUnit => (0, 0) | OkNone => (1, 0) | OkChar c => (2, c) | ErrReserve => (3, 0) | ErrFmt => (4, 0)
  | PanicReserve => (5, 0) | PanicIndex => (6, 0) | PanicUser => (7, 0) | PanicTooLong => (8, 0) | Skip => (9, 0)
  | UbOut _ => (10, 0)
  end.

Fixpoint run_obs (w : world) (ops : list op) : list (N * N * list oslot) :=
  match ops with
  | [] => []
  | o :: rest => let '(w', out) := exec w o in (outcome_code out, observe w') :: run_obs w' rest
  end.

Fixpoint list_eqb {A} (eqb : A -> A -> bool) (a b : list A) : bool :=
  match a, b with
  | [], [] => true
  | x :: a', y :: b' => eqb x y && list_eqb eqb a' b'
  | _, _ => false
  end.
Definition oslot_eqb (a b : oslot) : bool :=
  match a, b with
  | SlotN, SlotN => true
  | SlotI t c, SlotI t' c' => list_eqb N.eqb t t' && (c =? c')
  | SlotH t c i r, SlotH t' c' i' r' => list_eqb N.eqb t t' && (c =? c') && (i =? i') && (r =? r')
  | SlotS t c s, SlotS t' c' s' => list_eqb N.eqb t t' && (c =? c') && (s =? s')
  | _, _ => false
  end.
Definition step_eqb (a b : N * N * list oslot) : bool :=
  let '(c1, p1, s1) := a in let '(c2, p2, s2) := b in (c1 =? c2) && (p1 =? p2) && list_eqb oslot_eqb s1 s2.

(* a case agrees if the model, evaluated here, reproduces the expected observations step by step *)
Definition case_agrees (st : list (list N)) (fails : list N) (limit : N) (ops : list op)
           (expected : list (N * N * list oslot)) : bool :=
  list_eqb step_eqb (run_obs (world0 st (orc_of fails limit)) ops) expected.
