(* Cmd.v — the command language: memory- and atomics-level events a modelled Rust function performs,
   and its sequential interpretation [run] over a heap of buffers with an allocator oracle. *)
From LS Require Import Base.

Definition bufid := nat.
Definition sid := nat.
Inductive ord := Relaxed | Acquire | Release | AcqRel | SeqCst.
Inductive ptr := PHeap (b : bufid) | PStatic (s : sid).

Inductive cmd (R : Type) : Type :=
| Ret (r : R)
| Unreachable                                            (* unreachable_unchecked / debug_assert site *)
| Alloc   (size : N) (k : option bufid -> cmd R)         (* alloc(layout); None = null *)
| Realloc (b : bufid) (old new : N) (k : bool -> cmd R)  (* realloc(ptr, old layout, new size) *)
| Dealloc (b : bufid) (size : N) (k : cmd R)
| HdrInit (b : bufid) (c : N) (k : cmd R)                (* ptr::write(Header{count: 1, capacity: c}) *)
| HdrCap  (b : bufid) (k : N -> cmd R)                   (* read header.capacity *)
| Rmw     (b : bufid) (add : bool) (o : ord) (k : N -> cmd R)  (* fetch_add / fetch_sub 1, old value *)
| Load    (b : bufid) (o : ord) (k : N -> cmd R)
| Fence   (o : ord) (k : cmd R)
| Read    (p : ptr) (off n : N) (k : list N -> cmd R)
| Write   (p : ptr) (off : N) (bs : list N) (k : cmd R)
| Move    (p : ptr) (src dst n : N) (k : cmd R).         (* ptr::copy within one buffer *)
Arguments Ret {R}. Arguments Unreachable {R}. Arguments Alloc {R}. Arguments Realloc {R}.
Arguments Dealloc {R}. Arguments HdrInit {R}. Arguments HdrCap {R}. Arguments Rmw {R}.
Arguments Load {R}. Arguments Fence {R}. Arguments Read {R}. Arguments Write {R}. Arguments Move {R}.

Fixpoint bind {A B} (c : cmd A) (f : A -> cmd B) : cmd B :=
  match c with
  | Ret r => f r
  | Unreachable => Unreachable
  | Alloc n k => Alloc n (fun x => bind (k x) f)
  | Realloc b o n k => Realloc b o n (fun x => bind (k x) f)
  | Dealloc b n k => Dealloc b n (bind k f)
  | HdrInit b c k => HdrInit b c (bind k f)
  | HdrCap b k => HdrCap b (fun x => bind (k x) f)
  | Rmw b a o k => Rmw b a o (fun x => bind (k x) f)
  | Load b o k => Load b o (fun x => bind (k x) f)
  | Fence o k => Fence o (bind k f)
  | Read p off n k => Read p off n (fun x => bind (k x) f)
  | Write p off bs k => Write p off bs (bind k f)
  | Move p s d n k => Move p s d n (bind k f)
  end.
Notation "x <- c ;; d" := (bind c (fun x => d)) (at level 61, c at next level, right associativity).
Notation "c ;;; d" := (bind c (fun _ => d)) (at level 61, right associativity).

Definition alloc n : cmd (option bufid) := Alloc n Ret.
Definition realloc b o n : cmd bool := Realloc b o n Ret.
Definition dealloc b n : cmd unit := Dealloc b n (Ret tt).
Definition hdr_init b c : cmd unit := HdrInit b c (Ret tt).
Definition hdr_cap b : cmd N := HdrCap b Ret.
Definition rmw b a o : cmd N := Rmw b a o Ret.
Definition load b o : cmd N := Load b o Ret.
Definition fence o : cmd unit := Fence o (Ret tt).
Definition read p off n : cmd (list N) := Read p off n Ret.
Definition write p off bs : cmd unit := Write p off bs (Ret tt).
Definition move p s d n : cmd unit := Move p s d n (Ret tt).

(* ---------- sequential memory ---------- *)
Definition HDR : N := 16.
Definition POISON : N := 255.      (* fresh cells; 0xFF never occurs in valid UTF-8 *)

Record buf := { live : bool; asize : N (* bytes requested at (re)alloc *); count : N; cap : N;
                data : list N (* asize - HDR cells *) }.

Inductive event :=
| EAlloc (size : N) (r : option bufid)
| ERealloc (b : bufid) (old new : N) (ok : bool)
| EDealloc (b : bufid) (size : N)
| EHdrInit (b : bufid) (c : N)
| ERmw (b : bufid) (add : bool) (o : ord) (old : N)
| ELoad (b : bufid) (o : ord) (v : N)
| EFence (o : ord)
| ERead (p : ptr) (off n : N)
| EWrite (p : ptr) (off n : N)
| EMove (p : ptr) (src dst n : N).

Record mem := { heap : list buf; statics : list (list N);
                orc : N -> N -> bool  (* k-th request, of this size, refused? *);
                nreq : N; log : list event (* newest first *);
                ext : N -> N  (* references held OUTSIDE this world (by other threads) as seen by the atomic event
                                 that is the k-th event of the log: what it adds to the count that event reads.  The
                                 sequential world is [ext = fun _ => 0] ([quiet]). *) }.

Inductive ub := UUseAfterFree | UOob | UBadSize | UDoubleFree | UStaticWrite | UNoBuf | UUnreachable.
Inductive out (R : Type) := OVal (r : R) | OUb (u : ub).
Arguments OVal {R}. Arguments OUb {R}.

Definition set_buf (m : mem) (b : bufid) (x : buf) (e : event) : mem :=
  {| heap := upd (heap m) b x; statics := statics m; orc := orc m; nreq := nreq m; log := e :: log m; ext := ext m |}.
Definition logm (m : mem) (e : event) : mem :=
  {| heap := heap m; statics := statics m; orc := orc m; nreq := nreq m; log := e :: log m; ext := ext m |}.

Definition in_bounds (off n : N) (d : list N) : bool := off + n <=? len d.

(* What the next atomic event sees of the references held outside this world. *)
Definition ext_now (m : mem) : N := ext m (len (log m)).
Definition quiet (m : mem) : Prop := forall k, ext m k = 0.
(* A decrement that gives up this world's last reference while foreign references remain does not free the buffer, but
   from then on the buffer belongs to its foreign owners (who may free it at any time): it is gone from this world's
   view, and any later access through this world would be a use after free. *)
Definition rmw_live (add : bool) (own e : N) : bool := add || negb ((own =? 1) && negb (e =? 0)).

Fixpoint run {R} (c : cmd R) (m : mem) : out R * mem :=
  match c with
  | Ret r => (OVal r, m)
  | Unreachable => (OUb UUnreachable, m)
  | Alloc n k =>
      if orc m (nreq m) n then
        run (k None) {| heap := heap m; statics := statics m; orc := orc m; nreq := nreq m + 1;
                        log := EAlloc n None :: log m; ext := ext m |}
      else
        let b := length (heap m) in
        run (k (Some b))
            {| heap := heap m ++ [ {| live := true; asize := n; count := 0; cap := 0;
                                      data := repeat POISON (N.to_nat (n - HDR)) |} ];
               statics := statics m; orc := orc m; nreq := nreq m + 1; log := EAlloc n (Some b) :: log m; ext := ext m |}
  | Realloc b old new k =>
      match nth_error (heap m) b with
      | None => (OUb UNoBuf, m)
      | Some x =>
          if negb (live x) then (OUb UUseAfterFree, m) else
          if negb (old =? asize x) then (OUb UBadSize, m) else
          if orc m (nreq m) new then
            run (k false) {| heap := heap m; statics := statics m; orc := orc m; nreq := nreq m + 1;
                             log := ERealloc b old new false :: log m; ext := ext m |}
          else
            let n' := N.to_nat (new - HDR) in
            let d' := firstn n' (data x) ++ repeat POISON (n' - length (data x)) in
            run (k true) {| heap := upd (heap m) b {| live := true; asize := new; count := count x; cap := cap x; data := d' |};
                            statics := statics m; orc := orc m; nreq := nreq m + 1;
                            log := ERealloc b old new true :: log m; ext := ext m |}
      end
  | Dealloc b n k =>
      match nth_error (heap m) b with
      | None => (OUb UNoBuf, m)
      | Some x =>
          if negb (live x) then (OUb UDoubleFree, m) else
          if negb (n =? asize x) then (OUb UBadSize, m) else
          run k (set_buf m b {| live := false; asize := asize x; count := count x; cap := cap x; data := data x |}
                         (EDealloc b n))
      end
  | HdrInit b c k =>
      match nth_error (heap m) b with
      | None => (OUb UNoBuf, m)
      | Some x => if negb (live x) then (OUb UUseAfterFree, m) else
          run k (set_buf m b {| live := true; asize := asize x; count := 1; cap := c; data := data x |} (EHdrInit b c))
      end
  | HdrCap b k =>
      match nth_error (heap m) b with
      | None => (OUb UNoBuf, m)
      | Some x => if negb (live x) then (OUb UUseAfterFree, m) else run (k (cap x)) m
      end
  | Rmw b add o k =>
      match nth_error (heap m) b with
      | None => (OUb UNoBuf, m)
      | Some x => if negb (live x) then (OUb UUseAfterFree, m) else
          let e := ext_now m in
          run (k (count x + e)) (set_buf m b {| live := rmw_live add (count x) e; asize := asize x;
                                                count := if add then count x + 1 else count x - 1;
                                                cap := cap x; data := data x |} (ERmw b add o (count x + e)))
      end
  | Load b o k =>
      match nth_error (heap m) b with
      | None => (OUb UNoBuf, m)
      | Some x => if negb (live x) then (OUb UUseAfterFree, m) else
          let e := ext_now m in run (k (count x + e)) (logm m (ELoad b o (count x + e)))
      end
  | Fence o k => run k (logm m (EFence o))
  | Read (PHeap b) off n k =>
      match nth_error (heap m) b with
      | None => (OUb UNoBuf, m)
      | Some x => if negb (live x) then (OUb UUseAfterFree, m) else
          if negb (in_bounds off n (data x)) then (OUb UOob, m) else
          run (k (slice (data x) (N.to_nat off) (N.to_nat n))) (logm m (ERead (PHeap b) off n))
      end
  | Read (PStatic s) off n k =>
      match nth_error (statics m) s with
      | None => (OUb UNoBuf, m)
      | Some t => if negb (in_bounds off n t) then (OUb UOob, m) else
                  run (k (slice t (N.to_nat off) (N.to_nat n))) (logm m (ERead (PStatic s) off n))
      end
  | Write (PHeap b) off bs k =>
      match nth_error (heap m) b with
      | None => (OUb UNoBuf, m)
      | Some x => if negb (live x) then (OUb UUseAfterFree, m) else
          if negb (in_bounds off (len bs) (data x)) then (OUb UOob, m) else
          run k (set_buf m b {| live := true; asize := asize x; count := count x; cap := cap x;
                                data := write_range (data x) (N.to_nat off) bs |} (EWrite (PHeap b) off (len bs)))
      end
  | Write (PStatic _) _ _ _ => (OUb UStaticWrite, m)
  | Move (PHeap b) src dst n k =>
      match nth_error (heap m) b with
      | None => (OUb UNoBuf, m)
      | Some x => if negb (live x) then (OUb UUseAfterFree, m) else
          if negb (in_bounds src n (data x) && in_bounds dst n (data x)) then (OUb UOob, m) else
          run k (set_buf m b {| live := true; asize := asize x; count := count x; cap := cap x;
                                data := move_range (data x) (N.to_nat src) (N.to_nat dst) (N.to_nat n) |}
                         (EMove (PHeap b) src dst n))
      end
  | Move (PStatic _) _ _ _ _ => (OUb UStaticWrite, m)
  end.
